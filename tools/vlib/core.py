"""Common machinery of every check: tiers, seeds, evidence, replays, known findings, verdict.

Decision procedure (DESIGN.md section 2.3): sync -> prove -> correspond -> judge -> decide -> evidence.
Exit codes: 0 held (KNOWN-FINDING lines allowed), 1 VIOLATION line(s), 2 machinery failure.
"""

import hashlib
import json
import os
import random
import sys
import time
import traceback

VERIF = os.path.dirname(os.path.dirname(os.path.dirname(os.path.abspath(__file__))))
REPO = os.environ.get("VERIF_REPO", "/repo")
EVIDENCE_DIR = os.path.join(VERIF, "evidence")
REPLAY_DIR = os.path.join(VERIF, "replays")
KNOWN_FINDINGS = os.path.join(VERIF, "known_findings.json")

ALLOWED_AXIOMS = {"propext", "Classical.choice", "Quot.sound"}


class MachineryError(Exception):
    """The check itself failed (exit 2); never a verdict about MontePy."""


def canon(obj):
    return json.dumps(obj, sort_keys=True, separators=(",", ":"), default=str)


def chash(obj):
    return hashlib.sha256(canon(obj).encode()).hexdigest()[:16]


class Check:
    def __init__(self, prop, tier="quick", seed=0):
        self.prop = prop
        self.tier = tier
        self.seed = seed
        self.t0 = time.time()
        self.evaluations = 0
        self._distinct = set()
        self.samples = []
        self.rule = ""
        self.dist = {}
        self.obligations = []  # (name, ok, detail, axioms)
        self.violations = []  # concrete failing inputs: dict(signature, what, replay)
        self.broken = []  # broken obligations / correspondences: dict(kind, name, detail, case)
        self.units = {}
        self.assumptions = []
        self.trusted_base = []
        self.checker_cmd = ""
        self.extra = {}
        self.traces_validated = 0
        self.disagreements_checked = 0
        self.exhaustive = None
        self.known = self._load_known()
        self.known_hit = {}
        self.model_map_changed = []

    # ------------------------------------------------------------------ util
    @property
    def thorough(self):
        return self.tier == "thorough"

    def pick(self, quick, thorough):
        return thorough if self.thorough else quick

    def rng(self, *names):
        h = hashlib.sha256(canon([self.seed, self.prop, list(names)]).encode()).digest()
        return random.Random(int.from_bytes(h[:8], "big"))

    def count(self, key, n=1):
        self.dist[key] = self.dist.get(key, 0) + n

    def note_case(self, case, nontrivial=True, sample_every=None):
        """Count one explored case. `case` must be canonically serialisable."""
        self.evaluations += 1
        if nontrivial:
            self._distinct.add(chash(case))
        if len(self.samples) < 5 or (sample_every and self.evaluations % sample_every == 0 and len(self.samples) < 12):
            self.samples.append(case)

    def _load_known(self):
        try:
            with open(KNOWN_FINDINGS) as fh:
                data = json.load(fh)
        except FileNotFoundError:
            return []
        return [f for f in data.get("findings", []) if f.get("property") == self.prop]

    # ------------------------------------------------------------- reporting
    def violation(self, signature, what, replay):
        """A concrete failing input judged by the oracle on the real code."""
        for f in self.known:
            if all(signature.get(k) == v for k, v in f["signature"].items()):
                self.known_hit.setdefault(f["id"], {"finding": f, "count": 0, "example": replay})
                self.known_hit[f["id"]]["count"] += 1
                return False
        key = canon(signature)
        for v in self.violations:
            if v["key"] == key:
                v["count"] += 1
                if len(canon(replay)) < len(canon(v["replay"])):
                    v["replay"] = replay
                    v["what"] = what
                return True
        self.violations.append({"key": key, "signature": signature, "what": what, "replay": replay, "count": 1})
        return True

    def broken_obligation(self, kind, name, detail, case=None):
        """A theorem that no longer builds, or a model/implementation disagreement.
        Not a violation by itself: at the end, if no concrete failing input was found, it is
        reported as VIOLATION ... no-failing-input-found naming `name`."""
        for b in self.broken:
            if b["kind"] == kind and b["name"] == name:
                b["count"] += 1
                if case is not None and (b["case"] is None or len(canon(case)) < len(canon(b["case"]))):
                    b["case"] = case
                    b["detail"] = detail
                return
        self.broken.append({"kind": kind, "name": name, "detail": detail, "case": case, "count": 1})

    def add_obligation(self, name, ok, detail="", axioms=None):
        self.obligations.append({"name": name, "ok": bool(ok), "detail": detail, "axioms": axioms or []})
        if not ok:
            self.broken_obligation("theorem", name, detail)

    # ---------------------------------------------------------------- finish
    def _write_replay(self, name, payload):
        os.makedirs(REPLAY_DIR, exist_ok=True)
        path = os.path.join(REPLAY_DIR, name)
        if isinstance(payload, dict):
            payload.setdefault("hashseed", os.environ.get("PYTHONHASHSEED", "random"))
        with open(path, "w") as fh:
            json.dump(payload, fh, indent=1, sort_keys=True, default=str)
        return path

    def finish(self):
        lines = []
        exit_code = 0
        for hit in self.known_hit.values():
            f = hit["finding"]
            lines.append(f"KNOWN-FINDING: property={self.prop} {f['id']} {f['what']} (reproduced {hit['count']}x)")
        for f in self.known:
            if f["id"] not in self.known_hit:
                lines.append(
                    f"note: known finding {f['id']} did not reproduce on this run (it may be retired by hand)"
                )
        n = 0
        for v in self.violations:
            n += 1
            path = self._write_replay(
                f"{self.prop}_{chash(v['signature'])}.json",
                {
                    "property": self.prop,
                    "seed": self.seed,
                    "tier": self.tier,
                    "signature": v["signature"],
                    "what": v["what"],
                    "occurrences": v["count"],
                    "case": v["replay"],
                },
            )
            lines.append(f"VIOLATION property={self.prop} replay={path}")
            sys.stderr.write(f"[{self.prop}] violation: {v['what']} signature={canon(v['signature'])}\n")
            exit_code = 1
        if self.broken and not self.violations:
            path = self._write_replay(
                f"{self.prop}_unproved.json",
                {
                    "property": self.prop,
                    "seed": self.seed,
                    "tier": self.tier,
                    "verdict": "no-failing-input-found",
                    "no_longer_checks": [
                        {"kind": b["kind"], "name": b["name"], "detail": b["detail"], "case": b["case"], "occurrences": b["count"]}
                        for b in self.broken
                    ],
                },
            )
            lines.append(f"VIOLATION property={self.prop} replay={path} no-failing-input-found")
            for b in self.broken:
                sys.stderr.write(f"[{self.prop}] no longer checks: {b['kind']} {b['name']}: {str(b['detail'])[:400]}\n")
            exit_code = 1
        self._write_evidence(len(self.violations) + (1 if (self.broken and not self.violations) else 0))
        for l in lines:
            print(l)
        sys.stdout.flush()
        return exit_code

    def _write_evidence(self, nviol):
        os.makedirs(EVIDENCE_DIR, exist_ok=True)
        obligations = len(self.obligations)
        discharged = sum(1 for o in self.obligations if o["ok"])
        axioms = sorted({a for o in self.obligations for a in o["axioms"]})
        cov = {
            "obligations": obligations,
            "discharged": discharged,
            "checker_cmd": self.checker_cmd or "cd lean && lake build",
            "trusted_base": self.trusted_base
            + [f"axioms printed by #print axioms over all obligations of this run: {axioms}"],
            "obligation_list": [
                {"theorem": o["name"], "discharged": o["ok"], "axioms": o["axioms"]} for o in self.obligations
            ],
            "evaluations": self.evaluations,
            "distinct_nontrivial": len(self._distinct),
            "rule": self.rule,
            "samples": self.samples[:12] if self.samples else [{"note": "no sampled case on this run"}],
            "traces_validated_against_impl": self.traces_validated,
            "disagreements_checked": self.disagreements_checked,
            "input_distribution": dict(sorted(self.dist.items())),
            "units": self.units,
            "known_findings_reproduced": sorted(self.known_hit),
            "broken": [{"kind": b["kind"], "name": b["name"], "count": b["count"]} for b in self.broken],
        }
        if self.exhaustive is not None:
            # the schema wants a boolean ("the run enumerated a finite space completely"); checks that enumerate
            # finite SUB-spaces next to random cases describe them in a dict, reported under its own key
            if isinstance(self.exhaustive, bool):
                cov["exhaustive"] = self.exhaustive
            else:
                cov["exhaustive"] = False
                cov["exhaustive_subspaces"] = self.exhaustive
        cov.update(self.extra)
        ev = {
            "property_id": self.prop,
            "tier": self.tier,
            "seed": self.seed,
            "level": "proof",
            "coverage": cov,
            "assumptions": self.assumptions,
            "wall_s": round(time.time() - self.t0, 3),
            "violations": nviol,
        }
        tmp = os.path.join(EVIDENCE_DIR, f".{self.prop}.json.tmp")
        with open(tmp, "w") as fh:
            json.dump(ev, fh, indent=1, default=str)
        os.replace(tmp, os.path.join(EVIDENCE_DIR, f"{self.prop}.json"))


def run_check(prop, tier, seed, replay, module):
    chk = Check(prop, tier, seed)
    try:
        if replay:
            with open(replay) as fh:
                payload = json.load(fh)
            if not hasattr(module, "replay"):
                raise MachineryError(f"{prop} has no replay entry point")
            module.replay(chk, payload)
        else:
            module.run(chk)
        return chk.finish()
    except MachineryError as e:
        sys.stderr.write(f"[{prop}] machinery error: {e}\n")
        return 2
    except Exception:
        sys.stderr.write(f"[{prop}] machinery crashed:\n{traceback.format_exc()}\n")
        return 2
