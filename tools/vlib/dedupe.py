"""C18 helpers: case AST -> MCNP text, running the real remove_duplicate_surfaces, serialising live objects for the
Lean model, and the property's oracle (pure Python on exact rationals, shares nothing with MontePy's finders).

Case AST (JSON):
  {"surfaces":[{"n":1,"t":"PZ","c":["0.5"],"tr":null|2,"per":null|7,"bc":""|"*"|"+"}],
   "transforms":[{"n":2,"deg":false,"d":["0","0","1"],"r":["1","0",...],"m2a":true}],
   "cells":[{"n":1,"g":TREE}],      TREE = ["L",n,side] | ["C",cell] | ["#",T] | ["*",T,T] | [":",T,T]
   "edits":[["set_reflecting",n,bool] | ["set_white",n,bool] | ["del_periodic",n] | ["set_periodic",n,m]
            | ["set_transform",n,tr] | ["del_transform",n] | ["set_const",n,i,"1.5"]],
   "tols":["1e-4", ...]}             one remove_duplicate_surfaces call per tolerance, in order
"""
import itertools
import os
import re
import shutil
import tempfile
import warnings
from fractions import Fraction

from . import mp

montepy = mp.montepy


# ----------------------------------------------------------------------------------------------- rendering
def tree_text(t, top=True):
    k = t[0]
    if k == "L":
        return f"{'' if t[2] else '-'}{t[1]}"
    if k == "C":
        return f"#{t[1]}"  # only ever below "#": rendered by the parent
    if k == "#":
        if t[1][0] == "C":
            return f"#{t[1][1]}"
        return "#(" + tree_text(t[1]) + ")"
    sep = " " if k == "*" else " : "
    s = tree_text(t[1], False) + sep + tree_text(t[2], False)
    return s if top else "(" + s + ")"


def wrap_card(text, width=72):
    words = text.split(" ")
    lines, cur = [], ""
    for w in words:
        if cur and len(cur) + 1 + len(w) > width:
            lines.append(cur)
            cur = "     " + w
        else:
            cur = w if not cur else cur + " " + w
    lines.append(cur)
    return lines


def render(case):
    out = ["C18 generated problem"]
    for c in case["cells"]:
        out += wrap_card(f"{c['n']} 0 {tree_text(c['g'])}")
    out.append("")
    for s in case["surfaces"]:
        ptr = ""
        if s.get("tr") is not None:
            ptr = f" {s['tr']}"
        elif s.get("per") is not None:
            ptr = f" -{s['per']}"
        out += wrap_card(f"{s.get('bc', '')}{s['n']}{ptr} {s['t']} {' '.join(s['c'])}")
    out.append("")
    for tr in case.get("transforms", []):
        card = f"{'*' if tr['deg'] else ''}TR{tr['n']} {' '.join(tr['d'])}"
        if tr["r"]:
            card += " " + " ".join(tr["r"])
        if not tr["m2a"] and len(tr["r"]) == 9:
            card += " -1"
        out += wrap_card(card)
    out.append("")
    return "\n".join(out) + "\n"


# ----------------------------------------------------------------------------------------------- serialisation
def frac(x):
    f = Fraction(float(x))
    return f"{f.numerator}/{f.denominator}"


def ser_tree(h):
    from montepy.surfaces.half_space import UnitHalfSpace
    from montepy.geometry_operators import Operator

    if isinstance(h, UnitHalfSpace):
        d = h.divider
        num = d if isinstance(d, int) else d.number
        if h.is_cell:
            return ["C", num]
        return ["L", num, bool(h.side)]
    if h.operator == Operator.COMPLEMENT:
        return ["#", ser_tree(h.left)]
    if h.operator == Operator.INTERSECTION:
        return ["*", ser_tree(h.left), ser_tree(h.right)]
    if h.operator == Operator.UNION:
        return [":", ser_tree(h.left), ser_tree(h.right)]
    raise mp.MachineryError(f"unexpected operator {h.operator}")


def ser_transform(t):
    if t is None:
        return None
    return {
        "n": t.number,
        "deg": bool(t.is_in_degrees),
        "m2a": bool(t.is_main_to_aux),
        "d": [frac(x) for x in t.displacement_vector],
        "r": [frac(x) for x in t.rotation_matrix],
    }


def ser_surface(s):
    per = s.periodic_surface
    return {
        "n": s.number,
        "t": s.surface_type.value,
        "cls": type(s).__name__,
        "c": [frac(x) for x in s.surface_constants],
        "tr": ser_transform(s.transform),
        "per": None if per is None else per.number,
        "refl": bool(s.is_reflecting),
        "white": bool(s.is_white_boundary),
    }


def ser_problem(p):
    return {
        "surfaces": [ser_surface(s) for s in p.surfaces],
        "cells": [{"n": c.number, "g": ser_tree(c.geometry), "s": [s.number for s in c.surfaces]} for c in p.cells],
    }


def postfix(t):
    k = t[0]
    if k in ("L", "C"):
        return [t]
    if k == "#":
        return postfix(t[1]) + [["#"]]
    return postfix(t[1]) + postfix(t[2]) + [[k]]


def model_case(s0, tols):
    """the Lean driver's input: the live state before the first call and the tolerances as exact rationals"""
    return {
        "surfaces": [{k: s[k] for k in ("n", "t", "c", "tr", "per", "refl", "white")} for s in s0["surfaces"]],
        "cells": [{"n": c["n"], "g": postfix(c["g"]), "s": c["s"]} for c in s0["cells"]],
        "tols": [frac(float(t)) for t in tols],
    }


# ----------------------------------------------------------------------------------------------- the real code
def apply_edit(p, e):
    k = e[0]
    s = p.surfaces[e[1]]
    if k == "set_reflecting":
        s.is_reflecting = e[2]
    elif k == "set_white":
        s.is_white_boundary = e[2]
    elif k == "del_periodic":
        del s.periodic_surface
    elif k == "set_periodic":
        # the public setter latches the class of its first caller (defect 16 of DESIGN 7.3, property C17);
        # the link itself is the plain attribute
        s._periodic_surface = p.surfaces[e[2]]
    elif k == "set_transform":
        s.transform = p.transforms[e[2]]
    elif k == "del_transform":
        del s.transform
    elif k == "set_const":
        cs = list(s.surface_constants)
        cs[e[2]] = float(e[3])
        s.surface_constants = cs
    else:
        raise mp.MachineryError(f"unknown edit {k}")


def read_written(text):
    """Independent reading of a written file: surface numbers and pointers of the surface block, surface numbers
    referenced by each cell.  Only MCNP's line rules are used (continuation = 5 leading blanks, `$` comments,
    `c ` comment lines, blank line = end of block)."""
    lines = text.split("\n")[1:]
    blocks, cur = [], []
    for ln in lines:
        ln = ln.split("$")[0].rstrip()
        if not ln.strip():
            blocks.append(cur)
            cur = []
            continue
        if re.match(r"^ {0,4}[cC]( |$)", ln):
            continue
        if ln.startswith("     ") and cur:
            cur[-1] += " " + ln.strip()
        else:
            cur.append(ln.strip())
    blocks.append(cur)
    while len(blocks) < 2:
        blocks.append([])
    cells = {}
    for card in blocks[0]:
        toks = card.split()
        body = " ".join(toks[2:])
        body = re.sub(r"#\s*\d+", " ", body)  # complement of a cell: not a surface reference
        cells[int(toks[0])] = sorted({int(x) for x in re.findall(r"\d+", body)})
    surfaces, periodic = [], {}
    for card in blocks[1]:
        toks = card.split()
        if toks[0] in ("*", "+"):  # an edited boundary condition is written detached from the number (not C18's subject)
            toks = [toks[0] + toks[1]] + toks[2:]
        n = int(toks[0].lstrip("*+"))
        surfaces.append(n)
        if re.fullmatch(r"-\d+", toks[1]):
            periodic[n] = int(toks[1][1:])
    return {"surfaces": surfaces, "cells": cells, "periodic": periodic}


def run_impl(case):
    """read the rendered text with montepy.read_input, apply the edits, call remove_duplicate_surfaces once per
    tolerance, write the file; every observation is taken from the live objects / the written bytes."""
    d = tempfile.mkdtemp(prefix="verif_c18_")
    try:
        with warnings.catch_warnings():
            warnings.simplefilter("ignore")
            return _run_impl(case, d)
    finally:
        shutil.rmtree(d, ignore_errors=True)


def _run_impl(case, d):
    if True:
        path = os.path.join(d, "in.imcnp")
        with open(path, "w") as fh:
            fh.write(render(case))
        try:
            p = montepy.read_input(path)
            for e in case.get("edits", []):
                apply_edit(p, e)
        except Exception as e:  # noqa: BLE001  the generated input itself is not accepted: not a C18 case
            return {"read": "err:" + type(e).__name__ + ":" + str(e)[:200]}
        res = {"read": "ok", "s0": ser_problem(p), "calls": []}
        for tol in case["tols"]:
            try:
                p.remove_duplicate_surfaces(float(tol))
                out = "ok"
            except Exception as e:  # noqa: BLE001
                out = "err:" + type(e).__name__
            res["calls"].append(dict(ser_problem(p), out=out))
        try:
            outp = os.path.join(d, "out.imcnp")
            p.write_to_file(outp)
            with open(outp) as fh:
                res["written"] = read_written(fh.read())
        except Exception as e:  # noqa: BLE001
            res["written"] = {"err": type(e).__name__ + ":" + str(e)[:120]}
        return res


# ----------------------------------------------------------------------------------------------- the oracle
def F(s):
    a, b = s.split("/")
    return Fraction(int(a), int(b))


def less_than_tol(x, y, tol):
    """'differ by less than the tolerance' on two doubles: accepted in the exact reading or in the IEEE reading
    (`abs(x - y) < tol` with the subtraction rounded once); the two differ only when the subtraction is inexact."""
    fx, fy, ft = F(x), F(y), Fraction(tol)
    return abs(fx - fy) < ft or abs(float(fx) - float(fy)) < tol


def rounding_sensitive(x, y, tol):
    fx, fy, ft = F(x), F(y), Fraction(tol)
    return (abs(fx - fy) < ft) != (abs(float(fx) - float(fy)) < tol)


IDENT = {False: ["1", "0", "0", "0", "1", "0", "0", "0", "1"], True: ["0", "90", "90", "90", "0", "90", "90", "90", "0"]}


def _rot(t):
    if t["r"]:
        return t["r"]
    return [frac(float(x)) for x in IDENT[t["deg"]]]  # MCNP: no rotation entries = identity


def same_transform(a, b, tol):
    if a is None or b is None:
        return a is None and b is None
    if a["deg"] != b["deg"] or a["m2a"] != b["m2a"]:
        return False
    ra, rb = _rot(a), _rot(b)
    if len(a["d"]) != len(b["d"]) or len(ra) != len(rb):
        return False
    return all(less_than_tol(x, y, tol) for x, y in zip(a["d"] + ra, b["d"] + rb))


CRITERIA = ["type", "arity", "constants", "transform", "periodic", "boundary"]
FAIL_CLASS = {
    "type": "merged-different-type",
    "arity": "merged-different-arity",
    "constants": "merged-outside-tolerance",
    "transform": "merged-different-transform",
    "periodic": "merged-periodic",
    "boundary": "merged-different-boundary",
}


def dup_failures(a, b, tol):
    """the criteria of C18's duplicate relation that the pair (a, b) does NOT meet (empty list = duplicates)"""
    bad = []
    if a["t"] != b["t"]:
        bad.append("type")
    if len(a["c"]) != len(b["c"]):
        # "whose constants differ by less than the tolerance": a constant without a partner differs from nothing;
        # the longer card describes another surface (second sheet of a cone cut off, more points of revolution ...)
        bad.append("arity")
    elif not all(less_than_tol(x, y, tol) for x, y in zip(a["c"], b["c"])):
        bad.append("constants")
    if not same_transform(a["tr"], b["tr"], tol):
        bad.append("transform")
    if a["per"] is not None or b["per"] is not None:
        bad.append("periodic")
    if a["refl"] != b["refl"] or a["white"] != b["white"]:
        bad.append("boundary")
    return bad


def leaves(t, acc=None):
    acc = [] if acc is None else acc
    if t[0] == "L":
        acc.append(t)
    elif t[0] == "#":
        leaves(t[1], acc)
    elif t[0] in ("*", ":"):
        leaves(t[1], acc)
        leaves(t[2], acc)
    return acc


def shape(t):
    if t[0] == "L":
        return ["L", t[2]]
    if t[0] == "C":
        return t
    return [t[0]] + [shape(x) for x in t[1:]]


def evaluate(t, rho, kappa):
    k = t[0]
    if k == "L":
        return rho[t[1]] == t[2]
    if k == "C":
        return kappa[t[1]]
    if k == "#":
        return not evaluate(t[1], rho, kappa)
    if k == "*":
        return evaluate(t[1], rho, kappa) and evaluate(t[2], rho, kappa)
    return evaluate(t[1], rho, kappa) or evaluate(t[2], rho, kappa)


def cell_atoms(t, acc=None):
    acc = set() if acc is None else acc
    if t[0] == "C":
        acc.add(t[1])
    elif t[0] != "L":
        for x in t[1:]:
            cell_atoms(x, acc)
    return acc


def same_region(g0, g1, rep):
    """truth tables of g0 and g1 agree for every valuation that is constant on the classes of `rep`"""
    reps = sorted({rep(l[1]) for l in leaves(g0) + leaves(g1)})
    cats = sorted(cell_atoms(g0) | cell_atoms(g1))
    if len(reps) + len(cats) > 14:
        return True  # not enumerated (generators keep trees small); counted by the caller
    for bits in itertools.product([False, True], repeat=len(reps) + len(cats)):
        val = dict(zip(reps, bits[: len(reps)]))
        kappa = dict(zip(cats, bits[len(reps) :]))

        class Rho(dict):
            def __missing__(self, n):
                return val[rep(n)]

        rho = Rho()
        if evaluate(g0, rho, kappa) != evaluate(g1, rho, kappa):
            return False
    return True


def surface_class(s):
    return s.get("cls", "?")


def judge_call(before, after, tol, sig_base):
    """C18 on one remove_duplicate_surfaces(tol) call, from the observations of the real code.
    Returns None or (signature, what)."""
    b_by = {s["n"]: s for s in before["surfaces"]}
    a_by = {s["n"]: s for s in after["surfaces"]}
    removed = [n for n in b_by if n not in a_by]
    rset = set(removed)

    def sig(cls, s=None, **kw):
        d = dict(sig_base, **{"class": cls})
        if s is not None:
            d["surface_class"] = surface_class(s)
        d.update(kw)
        return d

    if [n for n in a_by if n not in b_by]:
        return sig("surface-appeared"), "a surface appeared that was not there before"
    # --- survivors are untouched (their periodic link may follow a removed partner to its duplicate)
    for n, a in a_by.items():
        b = b_by[n]
        for k in ("t", "cls", "c", "tr", "refl", "white"):
            if a[k] != b[k]:
                return sig("non-duplicate-touched", b, attribute=k), f"surviving surface {n}: {k} changed from {b[k]} to {a[k]}"
        if a["per"] != b["per"]:
            if b["per"] in rset and a["per"] in a_by and not dup_failures(b_by[a["per"]], b_by[b["per"]], tol):
                pass
            else:
                return sig("non-duplicate-touched", b, attribute="per"), f"surviving surface {n}: periodic link changed from {b['per']} to {a['per']}"
        if a["per"] is not None and a["per"] not in a_by:
            return sig("dangling-reference", b, where="periodic"), f"surface {n} is periodic with removed surface {a['per']}"
    if [s["n"] for s in after["surfaces"]] != [s["n"] for s in before["surfaces"] if s["n"] in a_by]:
        return sig("non-duplicate-touched", None, attribute="order"), "the order of the surviving surfaces changed"
    # --- how cells were re-pointed
    pairs = {}
    bc = {c["n"]: c for c in before["cells"]}
    if [c["n"] for c in after["cells"]] != [c["n"] for c in before["cells"]]:
        return sig("cells-changed"), "the list of cells changed"
    same_shape = all(shape(bc[c["n"]]["g"]) == shape(c["g"]) for c in after["cells"])
    if same_shape:
        for c in after["cells"]:
            for l0, l1 in zip(leaves(bc[c["n"]]["g"]), leaves(c["g"])):
                if l0[1] != l1[1]:
                    pairs.setdefault(l0[1], set()).add(l1[1])
    # --- merged only duplicates
    for d in removed:
        targets = sorted(pairs.get(d, ()))
        if not targets:
            # not used by any cell (or the trees were restructured): some surviving duplicate must exist
            best = None
            for t in a_by:
                bad = dup_failures(b_by[t], b_by[d], tol)
                if not bad:
                    best = []
                    break
                # closest survivor: fewest unmet criteria, among those one of the same mnemonic first
                if best is None or (len(bad), "type" in bad) < (len(best), "type" in best):
                    best = bad
            if best is None:
                best = ["type"]
            if best:
                return sig(FAIL_CLASS[best[0]], b_by[d]), f"surface {d} was removed but no surviving surface is its duplicate (closest fails: {best})"
        for t in targets:
            if t not in b_by:
                return sig("dangling-reference", b_by[d], where="geometry"), f"cells were re-pointed from {d} to unknown surface {t}"
            bad = dup_failures(b_by[t], b_by[d], tol)
            if bad:
                return sig(FAIL_CLASS[bad[0]], b_by[d]), f"surface {d} was merged into {t} although they differ in {bad} (tolerance {tol})"
    for d, ts in pairs.items():
        if d not in rset:
            return sig("non-duplicate-touched", b_by.get(d), attribute="leaf"), f"a leaf of surviving surface {d} was re-pointed to {sorted(ts)}"
    # --- regions under the identification
    parent = {}

    def rep(n):
        while parent.get(n, n) != n:
            n = parent[n]
        return n

    if same_shape:
        for d, ts in pairs.items():
            for t in ts:
                parent[rep(d)] = rep(t)
    else:
        for d in removed:
            for t in a_by:
                if not dup_failures(b_by[t], b_by[d], tol):
                    parent[rep(d)] = rep(t)
    for c in after["cells"]:
        if not same_region(bc[c["n"]]["g"], c["g"], rep):
            return sig("region-changed", None), f"cell {c['n']}: region changed from {bc[c['n']]['g']} to {c['g']}"
    # --- no reference to a removed surface remains; every cell lists what it uses
    for c in after["cells"]:
        used = {l[1] for l in leaves(c["g"])}
        for n in sorted(used):
            if n not in a_by:
                return sig("dangling-reference", b_by.get(n), where="geometry"), f"cell {c['n']} still refers to removed surface {n}"
        for n in c["s"]:
            if n not in a_by:
                return sig("dangling-reference", b_by.get(n), where="cell.surfaces"), f"cell {c['n']}.surfaces still lists removed surface {n}"
        if set(bc[c["n"]]["s"]) >= {l[1] for l in leaves(bc[c["n"]]["g"])} and not set(c["s"]) >= used:
            missing = sorted(used - set(c["s"]))
            return sig("dangling-reference", b_by.get(missing[0]), where="cell.surfaces-missing"), f"cell {c['n']} uses {missing} but cell.surfaces does not list them"
    return None


def judge_written(final, written, sig_base):
    if "err" in written:
        return None
    live = [s["n"] for s in final["surfaces"]]
    if written["surfaces"] != live:
        return dict(sig_base, **{"class": "dangling-reference", "where": "written-surface-block"}), f"written surface cards {written['surfaces']} != problem.surfaces {live}"
    for c, refs in written["cells"].items():
        for n in refs:
            if n not in live:
                return dict(sig_base, **{"class": "dangling-reference", "where": "written-cell"}), f"written cell {c} refers to surface {n} which is not written"
    for n, q in written["periodic"].items():
        if q not in live:
            return dict(sig_base, **{"class": "dangling-reference", "where": "written-periodic"}), f"written surface {n} is periodic with {q} which is not written"
    return None


def judge(case, res):
    """first violation of C18 in the observations `res` of the real code on `case`, or None"""
    if res.get("read") != "ok":
        return None
    base = {"mechanism": "dedupe"}
    prev = res["s0"]
    for k, (tol, call) in enumerate(zip(case["tols"], res["calls"])):
        if call["out"] == "ok":
            v = judge_call(prev, call, float(tol), dict(base, call=("first" if k == 0 else "repeated")))
        else:
            # an exception: the property still has to hold of the state it leaves behind
            v = judge_call(prev, call, float(tol), dict(base, call=("first" if k == 0 else "repeated"), raised=call["out"][4:]))
        if v is not None:
            return k, v[0], v[1]
        prev = call
    v = judge_written(prev, res.get("written", {"err": "none"}), dict(base, call="write"))
    if v is not None:
        return len(case["tols"]), v[0], v[1]
    return None


def sensitive(s0, tols):
    """True when an exact and an IEEE evaluation of some `abs(x - y) < tol` of this case disagree: such a case is
    judged by the oracle only and not used for the model/implementation comparison."""
    ss = s0["surfaces"]
    trs = {}
    for s in ss:
        if s["tr"] is not None:
            trs[s["tr"]["n"]] = s["tr"]
    for tol in tols:
        tol = float(tol)
        for a, b in itertools.combinations(ss, 2):
            if a["t"] == b["t"]:
                for x, y in zip(a["c"], b["c"]):
                    if rounding_sensitive(x, y, tol):
                        return True
        for a, b in itertools.combinations(list(trs.values()), 2):
            for x, y in zip(a["d"] + a["r"], b["d"] + b["r"]):
                if rounding_sensitive(x, y, tol):
                    return True
    return False
