"""Typed, JSON-serialisable API edits on a live MontePy problem (DESIGN.md section 5.4).

An edit is a list [op, args...]; objects are addressed by position in their collection so that a script
replays on a freshly read problem.  `apply(problem, edit)` performs it through the public API and returns
None, or raises whatever MontePy raises.  `gen_script(rng, problem, n)` draws VALID edits (documented types
and ranges, new numbers not in use) from the objects the problem actually has.

`affected(problem, edit)` gives the property C07's own locality rule: the set of inputs that may change —
("cell", i) / ("surface", i) / ("data", i) for the edited object and the inputs that refer to it by number,
plus "celldata" when data-block cards that list per-cell data may change.
"""

from . import mp

montepy = mp.montepy

PARTICLES = {"n": "NEUTRON", "p": "PHOTON", "e": "ELECTRON"}


def _particle(name):
    return getattr(montepy.particle.Particle, PARTICLES[name])


def short_float(rng, positive=True):
    """values with few digits: exactly representable decisions are C05's business, not ours"""
    x = rng.choice([0.5, 1.0, 1.5, 2.0, 2.5, 3.0, 4.0, 7.25, 10.0, 12.5, 0.125, 100.0, 0.75])
    if not positive and rng.random() < 0.3:
        x = -x
    return x


def apply(p, e):
    op = e[0]
    if op == "cell_number":
        p.cells.objects[e[1]].number = e[2]
    elif op == "surface_number":
        p.surfaces.objects[e[1]].number = e[2]
    elif op == "material_number":
        p.materials.objects[e[1]].number = e[2]
    elif op == "transform_number":
        p.transforms.objects[e[1]].number = e[2]
    elif op == "universe_number":
        p.universes.objects[e[1]].number = e[2]
    elif op == "importance":
        setattr(p.cells.objects[e[1]].importance, PARTICLES[e[2]].lower(), e[3])
    elif op == "importance_all":
        p.cells.objects[e[1]].importance.all = e[2]
    elif op == "volume":
        p.cells.objects[e[1]].volume = e[2]
    elif op == "del_volume":
        del p.cells.objects[e[1]].volume
    elif op == "material":
        c = p.cells.objects[e[1]]
        if e[2] is None:
            c.material = None
        else:
            c.material = p.materials.objects[e[2]]
            if c.atom_density is None and c.mass_density is None:
                c.atom_density = e[3]
    elif op == "atom_density":
        p.cells.objects[e[1]].atom_density = e[2]
    elif op == "mass_density":
        p.cells.objects[e[1]].mass_density = e[2]
    elif op == "universe":
        p.cells.objects[e[1]].universe = p.universes.objects[e[2]]
    elif op == "fill_universe":
        p.cells.objects[e[1]].fill.universe = p.universes.objects[e[2]]
    elif op == "surface_constant":
        s = p.surfaces.objects[e[1]]
        cs = s.surface_constants
        cs[e[2]] = e[3]
        s.surface_constants = cs
    elif op == "location":
        p.surfaces.objects[e[1]].location = e[2]
    elif op == "radius":
        p.surfaces.objects[e[1]].radius = e[2]
    elif op == "reflecting":
        p.surfaces.objects[e[1]].is_reflecting = e[2]
    elif op == "white":
        p.surfaces.objects[e[1]].is_white_boundary = e[2]
    elif op == "fraction":
        m = p.materials.objects[e[1]]
        comp = list(m.material_components.values())[e[2]]
        comp.fraction = e[3]
    elif op == "displacement":
        import numpy as np

        t = p.transforms.objects[e[1]]
        v = np.array(t.displacement_vector, dtype=float)
        v[e[2]] = e[3]
        t.displacement_vector = v
    elif op in ("geometry_and", "geometry_or"):
        # the documented way to edit a region: in-place operators on the cell's geometry
        c = p.cells.objects[e[1]]
        s = p.surfaces.objects[e[2]]
        half = -s if e[3] else +s
        if op == "geometry_and":
            c.geometry &= half
        else:
            c.geometry |= half
    elif op == "title":
        p.title = e[1]
    elif op == "print_in_data_block":
        p.print_in_data_block[e[1]] = e[2]
    else:
        raise ValueError(f"unknown edit {op}")


def free_number(rng, used, lo=1, hi=999):
    for _ in range(100):
        n = rng.randint(lo, hi)
        if n not in used:
            return n
    return max(used, default=0) + 1


DEFAULT_KINDS = [
    "cell_number", "surface_number", "material_number", "transform_number", "importance", "importance_all",
    "volume", "atom_density", "mass_density", "surface_constant", "location", "radius", "fraction", "title",
    "universe_number", "displacement", "geometry_and", "geometry_or",
]


def gen_edit(rng, p, kinds=None):
    """one valid edit for the current state of problem p, or None"""
    cells, surfs = p.cells.objects, p.surfaces.objects
    mats, trs, unis = p.materials.objects, p.transforms.objects, p.universes.objects
    mode = [k for k, v in PARTICLES.items() if _particle(k) in p.mode.particles]
    pool = kinds or DEFAULT_KINDS
    _unused = [
        "cell_number", "surface_number", "material_number", "transform_number", "importance", "importance_all",
        "volume", "atom_density", "mass_density", "surface_constant", "location", "radius", "fraction", "title",
        "universe_number", "displacement",
    ]
    for _ in range(30):
        k = rng.choice(pool)
        if k == "cell_number" and cells:
            return [k, rng.randrange(len(cells)), free_number(rng, {c.number for c in cells})]
        if k in ("geometry_and", "geometry_or") and cells and surfs:
            return [k, rng.randrange(len(cells)), rng.randrange(len(surfs)), rng.random() < 0.5]
        if k == "surface_number" and surfs:
            return [k, rng.randrange(len(surfs)), free_number(rng, {s.number for s in surfs})]
        if k == "material_number" and mats:
            return [k, rng.randrange(len(mats)), free_number(rng, {m.number for m in mats}, 1, 99)]
        if k == "transform_number" and trs:
            return [k, rng.randrange(len(trs)), free_number(rng, {t.number for t in trs}, 1, 99)]
        if k == "universe_number" and unis:
            cand = [i for i, u in enumerate(unis) if u.number != 0]
            if cand:
                return [k, rng.choice(cand), free_number(rng, {u.number for u in unis}, 1, 99)]
        if k == "importance" and cells and mode:
            return [k, rng.randrange(len(cells)), rng.choice(mode), rng.choice([0.0, 1.0, 2.0, 4.0, 0.5, 8.0])]
        if k == "importance_all" and cells and mode:
            return [k, rng.randrange(len(cells)), rng.choice([0.0, 1.0, 2.0, 3.0])]
        if k == "volume" and cells:
            return [k, rng.randrange(len(cells)), short_float(rng)]
        if k in ("atom_density", "mass_density") and cells:
            cand = [i for i, c in enumerate(cells) if c.material is not None]
            if cand:
                return [k, rng.choice(cand), short_float(rng)]
        if k == "surface_constant" and surfs:
            i = rng.randrange(len(surfs))
            n = len(surfs[i].surface_constants)
            generic = type(surfs[i]).__name__ in ("Surface", "GeneralPlane")
            if n and generic:
                return [k, i, rng.randrange(n), short_float(rng, positive=False)]
        if k == "location" and surfs:
            cand = [i for i, s in enumerate(surfs) if type(s).__name__ == "AxisPlane"]
            if cand:
                return [k, rng.choice(cand), short_float(rng, positive=False)]
        if k == "radius" and surfs:
            cand = [i for i, s in enumerate(surfs) if type(s).__name__ in ("CylinderOnAxis", "CylinderParAxis")]
            if cand:
                return [k, rng.choice(cand), short_float(rng)]
        if k == "fraction" and mats:
            i = rng.randrange(len(mats))
            n = len(mats[i].material_components)
            if n:
                return [k, i, rng.randrange(n), rng.choice([0.25, 0.5, 0.125, 0.75, 1.0])]
        if k == "displacement" and trs:
            return [k, rng.randrange(len(trs)), rng.randrange(3), short_float(rng, positive=False)]
        if k == "title":
            return [k, rng.choice(["edited title", "New Title 2", "x"])]
        if k == "print_in_data_block":
            # a setting, not in the default pool: moves a per-cell datum between the blocks (C19, C09 histories)
            return [k, rng.choice(["imp", "imp", "vol", "u", "fill", "lat"]), rng.random() < 0.5]
    return None


def gen_script(rng, p, n, kinds=None):
    """draws n valid edits, applying each to p as it goes (so later edits see earlier ones). Returns the script."""
    script = []
    for _ in range(n):
        e = gen_edit(rng, p, kinds)
        if e is None:
            break
        apply(p, e)
        script.append(e)
    return script


def affected(p0, e):
    """C07's locality rule, evaluated on the problem BEFORE the edit: inputs whose text may change."""
    op = e[0]
    aff = set()
    cells, surfs = p0.cells.objects, p0.surfaces.objects
    if op == "cell_number":
        c = cells[e[1]]
        aff.add(("cell", e[1]))
        for i, d in enumerate(cells):
            if any(x is c for x in d.complements):
                aff.add(("cell", i))
    elif op == "surface_number":
        s = surfs[e[1]]
        aff.add(("surface", e[1]))
        for i, c in enumerate(cells):
            if any(x is s for x in c.surfaces):
                aff.add(("cell", i))
        for i, t in enumerate(surfs):
            if t.periodic_surface is s:
                aff.add(("surface", i))
    elif op == "material_number":
        m = p0.materials.objects[e[1]]
        for i, d in enumerate(p0.data_inputs):
            if d is m or getattr(d, "parent_material", None) is m:
                aff.add(("data", i))
        for i, c in enumerate(cells):
            if c.material is m:
                aff.add(("cell", i))
    elif op == "transform_number":
        t = p0.transforms.objects[e[1]]
        for i, d in enumerate(p0.data_inputs):
            if d is t:
                aff.add(("data", i))
        for i, s in enumerate(surfs):
            if s.transform is t:
                aff.add(("surface", i))
        for i, c in enumerate(cells):
            if getattr(c.fill, "transform", None) is t:
                aff.add(("cell", i))
    elif op == "universe_number":
        u = p0.universes.objects[e[1]]
        for i, c in enumerate(cells):
            if c.universe is u or getattr(c.fill, "universe", None) is u:
                aff.add(("cell", i))
            # a lattice cell filled with a matrix of universes refers to each of them by number
            us = getattr(c.fill, "universes", None)
            if us is not None and any(x is u for x in us.flatten()):
                aff.add(("cell", i))
        aff.add("celldata")
    elif op in ("importance", "importance_all", "volume", "del_volume", "universe", "fill_universe"):
        aff.add(("cell", e[1]))
        aff.add("celldata")
    elif op in ("material", "atom_density", "mass_density", "geometry_and", "geometry_or"):
        aff.add(("cell", e[1]))
    elif op in ("surface_constant", "location", "radius", "reflecting", "white"):
        aff.add(("surface", e[1]))
    elif op == "fraction":
        m = p0.materials.objects[e[1]]
        for i, d in enumerate(p0.data_inputs):
            if d is m:
                aff.add(("data", i))
    elif op == "displacement":
        t = p0.transforms.objects[e[1]]
        for i, d in enumerate(p0.data_inputs):
            if d is t:
                aff.add(("data", i))
    elif op == "title":
        aff.add("title")
    elif op == "print_in_data_block":
        aff.add("celldata")
        aff.update(("cell", i) for i in range(len(cells)))
    return aff
