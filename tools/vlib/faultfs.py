"""Fault injection for file output, done entirely from the harness (no hook in MontePy).

`Injector(scratch, fault)` is a context manager.  While it is active every file opened *for writing* below
`scratch` (through builtins.open, io.open, os.fdopen, tempfile.*, or os.open + open(fd)) is wrapped in a
proxy that counts `write` calls and can make

    {"k": "open"}                 the first creation of a file for writing raise OSError(ENOSPC)
    {"k": "write", "i": k, "sent": n}   the k-th write (0-based, over all wrapped files) send n characters, then raise OSError(ENOSPC)
    {"k": "close", "flushed": f}  the first close of a wrapped file fail with OSError(EIO) the way the OS contract allows:
                                  of the data still buffered by Python (everything below 8 KiB, else the last chunk)
                                  a prefix reaches the file - f = "none" | "half" | "all" | <number of bytes> -, the rest
                                  is lost, the descriptor is released, then the error is raised.  The bytes are written
                                  through the descriptor itself (os.pwrite), so they land wherever that open file lives
                                  *now* (e.g. at the destination, if the code renamed the file before closing it).
    {"k": "replace"}              os.replace / os.rename on a path below scratch raise OSError(EIO)

`fired` tells whether the fault was reached; `nwrites` is the number of write calls seen.
The patches are process-global but only act on paths below `scratch`; they are removed on exit.
"""
import builtins
import errno
import io
import os
import tempfile
import types


class _Proxy:
    def __init__(self, fh, inj):
        object.__setattr__(self, "_fh", fh)
        object.__setattr__(self, "_inj", inj)
        object.__setattr__(self, "_chunks", [])

    def _record(self, s):
        if isinstance(s, str):
            enc = getattr(self._fh, "encoding", None) or "ascii"
            s = s.encode(enc, "replace")
        self._chunks.append(bytes(s))

    def write(self, s):
        inj = self._inj
        k = inj.nwrites
        inj.nwrites += 1
        f = inj.fault
        if f["k"] == "write" and f["i"] == k and not inj.fired:
            inj.fired = True
            sent = f.get("sent", 0)
            if sent:
                try:
                    self._fh.write(s[:sent])
                    self._record(s[:sent])
                except UnicodeError:  # the injected fault is the OSError, whatever the prefix contains
                    pass
            raise OSError(errno.ENOSPC, "No space left on device (injected by the C15 harness)")
        n = self._fh.write(s)
        self._record(s)
        return n

    def writelines(self, lines):
        for l in lines:
            self.write(l)

    def close(self):
        inj = self._inj
        if inj.fault["k"] == "close" and not inj.fired:
            inj.fired = True
            try:
                self._failing_close(inj.fault.get("flushed", "all"))
            finally:
                raise OSError(errno.EIO, "Input/output error on close (injected by the C15 harness)")
        return self._fh.close()

    def _failing_close(self, flushed):
        """A prefix of Python's still buffered data reaches the open file, the rest is dropped, the descriptor is
        released (as close(2) does even when it reports an error)."""
        fh = self._fh
        fd = fh.fileno()
        data = b"".join(self._chunks)
        on_disk = os.fstat(fd).st_size  # the file was created empty by this handle: what is there was flushed
        pending = data[on_disk:]
        k = {"none": 0, "half": len(pending) // 2, "all": len(pending)}.get(flushed, flushed)
        k = max(0, min(int(k), len(pending)))
        if k:
            os.pwrite(fd, pending[:k], on_disk)
        raw = fh
        for _ in range(5):  # TextIOWrapper.buffer -> BufferedWriter.raw -> FileIO (also through tempfile's wrapper)
            nxt = getattr(raw, "buffer", None) or getattr(raw, "raw", None)
            if nxt is None:
                break
            raw = nxt
        raw.close()  # releases the descriptor without flushing the layers above
        try:
            fh.close()  # marks the upper layers closed; their flush now fails and is dropped
        except Exception:  # noqa: BLE001
            pass

    def __enter__(self):
        self._fh.__enter__()
        return self

    def __exit__(self, et, ev, tb):
        inj = self._inj
        if inj.fault["k"] == "close" and not inj.fired:
            self.close()
        return self._fh.__exit__(et, ev, tb)

    def __iter__(self):
        return iter(self._fh)

    def __getattr__(self, name):
        return getattr(self._fh, name)

    def __setattr__(self, name, value):
        setattr(self._fh, name, value)


_WRITE_FLAGS = os.O_WRONLY | os.O_RDWR | os.O_CREAT | os.O_TRUNC | os.O_APPEND


class Injector:
    def __init__(self, scratch, fault):
        self.scratch = os.path.realpath(scratch) + os.sep
        self.fault = fault or {"k": "none"}
        self.fired = False
        self.nwrites = 0
        self.fds = set()
        self._saved = []

    # ------------------------------------------------------------------ helpers
    def _below(self, path):
        try:
            p = os.fspath(path)
        except TypeError:
            return False
        if isinstance(p, bytes):
            p = os.fsdecode(p)
        return (os.path.realpath(p) + os.sep).startswith(self.scratch)

    @staticmethod
    def _writing(mode):
        return any(c in mode for c in "wax+")

    def _open_fault(self):
        if self.fault["k"] == "open" and not self.fired:
            self.fired = True
            raise OSError(errno.ENOSPC, "No space left on device (injected by the C15 harness)")

    def _patch(self, obj, name, new):
        self._saved.append((obj, name, getattr(obj, name)))
        setattr(obj, name, new)

    # ------------------------------------------------------------------ context manager
    def __enter__(self):
        real_open = io.open
        real_os_open = os.open
        real_replace = os.replace
        real_rename = os.rename
        inj = self

        def fake_open(file, mode="r", *a, **k):
            if isinstance(file, int):
                if file in inj.fds and inj._writing(mode):
                    return _Proxy(real_open(file, mode, *a, **k), inj)
                return real_open(file, mode, *a, **k)
            if inj._writing(mode) and inj._below(file):
                inj._open_fault()
                return _Proxy(real_open(file, mode, *a, **k), inj)
            return real_open(file, mode, *a, **k)

        def fake_os_open(path, flags, mode=0o777, *a, **k):
            if (flags & _WRITE_FLAGS) and inj._below(path):
                inj._open_fault()
                fd = real_os_open(path, flags, mode, *a, **k)
                inj.fds.add(fd)
                return fd
            return real_os_open(path, flags, mode, *a, **k)

        def fake_replace(src, dst, *a, **k):
            if inj.fault["k"] == "replace" and not inj.fired and (inj._below(src) or inj._below(dst)):
                inj.fired = True
                raise OSError(errno.EIO, "Input/output error on rename (injected by the C15 harness)")
            return real_replace(src, dst, *a, **k)

        def fake_rename(src, dst, *a, **k):
            if inj.fault["k"] == "replace" and not inj.fired and (inj._below(src) or inj._below(dst)):
                inj.fired = True
                raise OSError(errno.EIO, "Input/output error on rename (injected by the C15 harness)")
            return real_rename(src, dst, *a, **k)

        self._patch(builtins, "open", fake_open)
        self._patch(io, "open", fake_open)
        self._patch(os, "open", fake_os_open)
        self._patch(os, "replace", fake_replace)
        self._patch(os, "rename", fake_rename)
        # tempfile calls _io.open directly
        fake_io = types.SimpleNamespace(**{n: getattr(tempfile._io, n) for n in dir(tempfile._io) if not n.startswith("__")})
        fake_io.open = fake_open
        self._patch(tempfile, "_io", fake_io)
        return self

    def __exit__(self, *exc):
        for obj, name, old in reversed(self._saved):
            setattr(obj, name, old)
        self._saved = []
        return False
