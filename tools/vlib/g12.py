"""Sentences of the core grammar G (DESIGN.md 5.2) for C12: abstract sentences ("specs", plain JSON),
their layouts (5.3), the Lean AST of a laid-out sentence (for Spec.Card in the driver), the intended reading,
random generators, rule tags and shrink candidates.

spec  --build-->  node tree with gap slots  --layout(mode, seed)-->  text  +  Lean JSON  +  intent

The terminal sets come from the Lean Spec (driver op "tables"), never from MontePy.
"""

import math
import random
import re
from fractions import Fraction

# ----------------------------------------------------------------------------------------------- numbers (G: Real)
_REAL = re.compile(r"^([+-]?)(\d+\.?\d*|\.\d+)(?:[eE]([+-]?\d{1,3})|([+-]\d{1,3}))?$")


def parse_real(s):
    """G's Real rule read the way MCNP reads it (exponent with or without the letter). Exact Fraction."""
    m = _REAL.match(s)
    if not m:
        raise ValueError(f"not a Real of G: {s!r}")
    sign, mant, e1, e2 = m.groups()
    if e2 is not None and "." not in mant:
        raise ValueError(f"exponent without letter needs a '.': {s!r}")
    if "." in mant:
        a, b = mant.split(".")
        val = Fraction(int((a or "0") + b), 10 ** len(b)) if (a + b) else Fraction(0)
    else:
        val = Fraction(int(mant))
    exp = int(e1 if e1 is not None else (e2 or 0))
    val *= Fraction(10) ** exp
    return -val if sign == "-" else val


def gen_real(rng, nonzero=False, nonneg=False, positive=False, small=False):
    """A spelling of the Real rule."""
    while True:
        k = rng.random()
        if k < 0.35:
            body = str(rng.randint(0, 999 if small else 99999))
            if rng.random() < 0.08:
                body = "0" * rng.randint(1, 2) + body
        elif k < 0.55:
            body = f"{rng.randint(0, 999)}.{rng.randint(0, 9999)}"
        elif k < 0.65:
            # any number of digits on either side of the point (4-6 before it and 2-3 after it is the shape of a ZAID)
            body = f"{rng.randint(0, 10 ** rng.randint(1, 6) - 1)}.{str(rng.randint(0, 999)).zfill(rng.randint(1, 3))}"
        elif k < 0.75:
            body = f"{rng.randint(0, 999)}."
        elif k < 0.85:
            body = f".{rng.randint(0, 9999)}"
        else:
            body = rng.choice(["0", "0.0", "1", "1.0", "2.5", "10", "0.5"])
        ex = ""
        r = rng.random()
        if r < 0.25:
            ex = rng.choice("eE") + rng.choice(["", "+", "-"]) + str(rng.randint(0, 30 if not small else 3)).zfill(rng.choice([1, 1, 2, 3]))
        elif r < 0.33 and "." in body:
            ex = rng.choice("+-") + str(rng.randint(0, 30 if not small else 3)).zfill(rng.choice([1, 2]))
        sign = "" if (nonneg or positive) and rng.random() < 0.9 else rng.choice(["", "", "-", "+"])
        if (nonneg or positive) and sign == "-":
            sign = "+"
        s = sign + body + ex
        v = parse_real(s)
        if (nonzero or positive) and v == 0:
            continue
        if v != 0 and not (Fraction(1, 10**30) < abs(v) < Fraction(10**30)):
            continue
        return s


def gen_int(rng, lo=1, hi=99):
    return str(rng.randint(lo, hi))


# ----------------------------------------------------------------------------------------------- entries
def entry_values(e):
    """Intended expansion of one entry: list of Fraction / float / None (jump)."""
    k = e[0]
    if k == "real":
        return [parse_real(e[1])]
    if k == "jump":
        return [None] * (e[1] or 1)
    if k == "rep":
        return [parse_real(e[1])] * ((e[2] or 1) + 1)
    if k == "mul":
        v = parse_real(e[1])
        return [v, v * parse_real(e[2])]
    if k == "interp":
        a, n, log, b = parse_real(e[1]), e[2] or 1, e[3], parse_real(e[4])
        if not log:
            return [a + (b - a) * Fraction(i, n + 1) for i in range(n + 2)]
        fa, fb = float(a), float(b)
        return [a] + [fa * (fb / fa) ** (i / (n + 1)) for i in range(1, n + 1)] + [b]
    raise AssertionError(k)


def entries_values(es):
    out = []
    for e in es:
        out += entry_values(e)
    return out


def entry_rule(e):
    k = e[0]
    if k == "real":
        s = e[1].lower()
        tags = ["Entry:real"]
        if re.search(r"\d[+-]\d", s):
            tags.append("Real:exp-no-letter")
        elif "e" in s:
            tags.append("Real:exp")
        if s.lstrip("+-").startswith("."):
            tags.append("Real:leading-dot")
        if s.startswith("+"):
            tags.append("Real:plus")
        if parse_real(e[1]) == 0:
            tags.append("Real:zero")
        return tags
    if k == "jump":
        return ["Entry:jump" + ("-n" if e[1] else "")]
    if k == "rep":
        return ["Entry:repeat" + ("-n" if e[2] else "")]
    if k == "mul":
        return ["Entry:multiply" + ("" if re.fullmatch(r"[+-]?\d+", e[2]) else "-real")]
    if k == "interp":
        t = "Entry:" + ("ilog" if e[3] else "interp") + ("-n" if e[2] else "")
        return [t] + (["Interp:end-zero"] if parse_real(e[4]) == 0 else [])
    raise AssertionError(k)


def gen_entries(rng, n, shortcuts="RMI", jumps=False, nonneg=False, ints=False, p_short=0.3):
    """`n` values after expansion, as a list of entries."""
    es = []
    left = n

    def real(nonzero=False, positive=False):
        if ints:
            return gen_int(rng, 1, 50)
        return gen_real(rng, nonzero=nonzero, nonneg=nonneg, positive=positive, small=True)

    while left > 0:
        r = rng.random()
        if jumps and r < 0.12:
            k = rng.randint(1, min(3, left))
            es.append(["jump", None if k == 1 and rng.random() < 0.7 else k])
            left -= k
        elif left >= 2 and r < p_short and shortcuts:
            kind = rng.choice(shortcuts)
            if kind == "R":
                k = rng.randint(1, min(4, left - 1))
                es.append(["rep", real(), None if k == 1 and rng.random() < 0.5 else k])
                left -= k + 1
            elif kind == "M":
                m = gen_int(rng, 2, 9) if rng.random() < 0.7 else gen_real(rng, positive=True, small=True)
                es.append(["mul", real(nonzero=True), m])
                left -= 2
            else:
                if left < 3:
                    continue
                k = min(rng.randint(1, left - 2), 5)
                log = rng.random() < 0.35
                a = real(nonzero=log, positive=log)
                b = real(nonzero=log, positive=log)
                if ints:
                    a, b = "1", str(k + 2)
                es.append(["interp", a, None if k == 1 and rng.random() < 0.5 else k, log, b])
                left -= k + 2
        else:
            es.append(["real", real()])
            left -= 1
    return es


# ----------------------------------------------------------------------------------------------- node tree
class Slot:
    """A gap between two words: kind req | opt | none | end; pieces are filled in by the layout."""

    def __init__(self, kind):
        self.kind = kind
        self.pieces = []  # [(class letter, text)]

    def lean(self):
        return [c for c, _ in self.pieces]

    def text(self):
        return "".join(t for _, t in self.pieces)


class Word:
    def __init__(self, text, ci=False):
        self.t = text
        self.ci = ci  # case-insensitive: the layout may change the case of its letters
        self.o = text


class Sep:
    def __init__(self):
        self.b = Slot("sepb")
        self.eq = True
        self.a = Slot("sepa")
        self.b.sep = self
        self.a.sep = self

    def lean(self):
        return [self.b.lean(), self.eq, self.a.lean()]


def ev_entries(es):
    """events and the lean builder of an entry list; each entry is followed by a slot"""
    ev = []
    parts = []
    for e in es:
        k = e[0]
        s_after = Slot("req")
        if k == "real":
            w = Word(e[1], True)
            ev += [w, s_after]
            parts.append((lambda w=w, e=e: ["real", [w.o, parse_real(e[1]) == 0]], s_after))
        elif k == "jump":
            w = Word((str(e[1]) if e[1] else "") + "j", True)
            ev += [w, s_after]
            parts.append((lambda w=w, e=e: ["jump", w.o, bool(e[1])], s_after))
        elif k == "rep":
            a, g, w = Word(e[1], True), Slot("req"), Word((str(e[2]) if e[2] else "") + "r", True)
            ev += [a, g, w, s_after]
            parts.append((lambda a=a, g=g, w=w, e=e: ["rep", [a.o, parse_real(e[1]) == 0], g.lean(), w.o, bool(e[2])], s_after))
        elif k == "mul":
            a, g, w = Word(e[1], True), Slot("req"), Word(e[2] + "m", True)
            ev += [a, g, w, s_after]
            parts.append((lambda a=a, g=g, w=w, e=e: ["mul", [a.o, parse_real(e[1]) == 0], g.lean(), w.o], s_after))
        elif k == "interp":
            a, g1 = Word(e[1], True), Slot("req")
            w = Word((str(e[2]) if e[2] else "") + ("ilog" if e[3] else "i"), True)
            g2, b = Slot("req"), Word(e[4], True)
            ev += [a, g1, w, g2, b, s_after]
            parts.append(
                (
                    lambda a=a, g1=g1, w=w, g2=g2, b=b, e=e: [
                        "interp",
                        [a.o, parse_real(e[1]) == 0],
                        g1.lean(),
                        w.o,
                        bool(e[2]),
                        bool(e[3]),
                        g2.lean(),
                        [b.o, parse_real(e[4]) == 0],
                    ],
                    s_after,
                )
            )
        else:
            raise AssertionError(k)

    def lean():
        return [[f(), s.lean()] for f, s in parts]

    return ev, lean


def ev_geom(g):
    """(events, lean thunk, starts_paren, ends_paren, level)"""
    k = g[0]
    if k == "s":
        w = Word(g[1])
        return [w], (lambda: ["surf", w.o]), False, False, 0
    if k == "p":
        s1, s2 = Slot("opt"), Slot("opt")
        ev, ln, _, _, _ = ev_geom(g[1])
        return [Word("("), s1] + ev + [s2, Word(")")], (lambda: ["paren", s1.lean(), ln(), s2.lean()]), True, True, 0
    if k == "c":
        ev, ln, _, ep, _ = ev_geom(g[1])
        return [Word("#"), Slot("none")] + ev, (lambda: ["compl", ln()]), False, ep, 0
    if k == "i":
        evl, lnl, sl, el, _ = ev_geom(g[1])
        evr, lnr, sr, er, _ = ev_geom(g[2])
        # no blank needed when a parenthesis separates: )( , )5 , 5( , and a complement after a parenthesis: )#3
        tight_ok = (g[2][0] in "sp" and (el or sr)) or (g[2][0] == "c" and el)
        s = Slot("opt" if tight_ok else "req")
        return evl + [s] + evr, (lambda: ["inter", lnl(), s.lean(), lnr()]), sl, er, 1
    if k == "u":
        evl, lnl, sl, _, _ = ev_geom(g[1])
        evr, lnr, _, er, _ = ev_geom(g[2])
        s1, s2 = Slot("opt"), Slot("opt")
        return evl + [s1, Word(":"), s2] + evr, (lambda: ["union", lnl(), s1.lean(), s2.lean(), lnr()]), sl, er, 2
    raise AssertionError(k)


def classifier_word(star, name, num, pl):
    return Word(("*" if star else "") + name + (num or "") + ((":" + ",".join(pl)) if pl else ""), True)


def lean_classifier(word, star, name, num, pl, name_cls, star_cls="*"):
    """split the laid-out (re-cased) classifier word back into its parts"""
    o = word.o
    i = 1 if star else 0
    nm = o[i : i + len(name)]
    rest = o[i + len(name) + len(num or "") :]
    parts = rest[1:].split(",") if rest else []
    return {"star": bool(star), "starCls": star_cls, "name": nm, "cls": name_cls, "number": num, "particles": parts}


class Built:
    """A built sentence: events in text order, a thunk for the Lean AST (None when the family is not in Spec),
    the Lean op name."""

    def __init__(self, events, lean, op):
        self.events = events
        self.lean = lean
        self.op = op


def build_value(v):
    """cell parameter value → (events, lean thunk)"""
    k = v[0]
    if k == "nums":
        ev, ln = ev_entries(v[1])
        return ev, (lambda: ["nums", ln()])
    if k == "numsParen":
        ev1, ln1 = ev_entries(v[1])
        ev1[-1].kind = "opt"
        ev2, ln2 = ev_entries(v[2])
        ev2[-1].kind = "opt"
        s0, after = Slot("opt"), Slot("req")
        return ev1 + [Word("("), s0] + ev2 + [Word(")"), after], (lambda: ["numsParen", ln1(), s0.lean(), ln2(), after.lean()])
    if k == "paren":
        ev2, ln2 = ev_entries(v[1])
        ev2[-1].kind = "opt"
        s0, after = Slot("opt"), Slot("req")
        return [Word("("), s0] + ev2 + [Word(")"), after], (lambda: ["paren", s0.lean(), ln2(), after.lean()])
    if k == "lattice":
        ev = []
        nums = []
        gaps = []
        for a, b in v[1]:
            wa, wb, g = Word(a), Word(b), Slot("req")
            ev += [wa, Slot("none"), Word(":"), Slot("none"), wb, g]
            nums += [(wa, a), (wb, b)]
            gaps.append(g)
        evu, lnu = ev_entries(v[2])

        def ln():
            n = [[w.o, int(t) == 0] for w, t in nums]
            return ["lattice", n[0], n[1], gaps[0].lean(), n[2], n[3], gaps[1].lean(), n[4], n[5], gaps[2].lean(), lnu()]

        return ev + evu, ln
    raise AssertionError(k)


def build(spec, tables):
    kind = spec["kind"]
    kw = set(tables["keywords"])
    parts = set(tables["particles"])
    if kind == "cell":
        lead, g0, g1 = Slot("lead"), Slot("req"), Slot("req")
        wn = Word(spec["num"])
        ev = [lead, wn, g0]
        if spec["mat"] is None:
            wz = Word("0")
            ev += [wz, g1]
            mat = lambda: None  # noqa: E731
        else:
            wm, gm, wd = Word(spec["mat"][0]), Slot("req"), Word(spec["mat"][1], True)
            ev += [wm, gm, wd, g1]
            mat = lambda: [wm.o, gm.lean(), wd.o]  # noqa: E731
        evg, lng, _, _, _ = ev_geom(spec["geom"])
        g2 = Slot("req" if spec["params"] else "end")
        ev += evg + [g2]
        plean = []
        for p in spec["params"]:
            cw = classifier_word(p.get("star"), p["key"], p.get("idx"), p.get("pl") or [])
            sep = Sep()
            evv, lnv = build_value(p["val"])
            ev += [cw, sep] + evv
            plean.append(
                lambda cw=cw, sep=sep, lnv=lnv, p=p: [
                    lean_classifier(cw, p.get("star"), p["key"], p.get("idx"), p.get("pl") or [], "KEYWORD"),
                    sep.lean(),
                    lnv(),
                ]
            )
        _last_slot(ev).kind = "end"

        def lean():
            return {
                "lead": lead.lean(),
                "number": wn.o,
                "g0": g0.lean(),
                "material": mat(),
                "matZero": "0",
                "g1": g1.lean(),
                "geometry": lng(),
                "g2": g2.lean(),
                "params": [f() for f in plean],
            }

        return Built(ev, lean, "cell")
    if kind == "surface":
        lead, g0, g1 = Slot("lead"), Slot("req"), Slot("req")
        star = spec["mod"] == "*"
        wn = Word(("+" if spec["mod"] == "+" else "") + spec["num"])
        ev = [lead] + ([Word("*"), Slot("none")] if star else []) + [wn, g0]
        ptr = None
        if spec["ptr"] is not None:
            wp, gp = Word(spec["ptr"]), Slot("req")
            ev += [wp, gp]
            ptr = (wp, gp)
        wm = Word(spec["mn"], True)
        eve, lne = ev_entries(spec["entries"])
        ev += [wm, g1] + eve
        _last_slot(ev).kind = "end"

        def lean():
            return {
                "lead": lead.lean(),
                "star": star,
                "number": wn.o,
                "g0": g0.lean(),
                "pointer": [ptr[0].o, ptr[1].lean()] if ptr else None,
                "mnemonic": wm.o,
                "g1": g1.lean(),
                "constants": lne(),
            }

        return Built(ev, lean, "surface")
    if kind == "data":
        lead, g0 = Slot("lead"), Slot("req")
        name = spec["name"]
        pl = spec.get("pl") or []
        cw = classifier_word(spec.get("star"), name, spec.get("num"), pl)
        name_cls = "KEYWORD" if name in kw else ("PARTICLE" if name in parts else "TEXT")
        ev = [lead, cw, g0]
        body = spec["body"]
        bk = body[0]
        lean_body = None
        xop = "data"
        if bk == "numbers":
            kwd = None
            if body[1]:
                wk, gk = Word(body[1], True), Slot("req")
                ev += [wk, gk]
                kwd = (wk, gk)
            eve, lne = ev_entries(body[2])
            ev += eve
            lean_body = lambda: ["numbers", [kwd[0].o, kwd[1].lean()] if kwd else None, lne()]  # noqa: E731
        elif bk == "material":
            frs = []
            for z, f in body[1]:
                wz, gz, wf, gf = Word(z, True), Slot("req"), Word(f, True), Slot("req")
                ev += [wz, gz, wf, gf]
                frs.append((wz, gz, wf, gf, f))
            pls = []
            for key, val in body[2]:
                kwd, sep = Word(key, True), Sep()
                ev += [kwd, sep]
                if val[0] == "lib":
                    wl, ga = Word(val[1], True), Slot("req")
                    ev += [wl, ga]
                    pls.append(lambda kwd=kwd, sep=sep, wl=wl, ga=ga: [_cls(kwd.o, "KEYWORD"), sep.lean(), ["lib", wl.o, ga.lean()]])
                else:
                    eve, lne = ev_entries(val[1])
                    ev += eve
                    pls.append(lambda kwd=kwd, sep=sep, lne=lne: [_cls(kwd.o, "KEYWORD"), sep.lean(), ["nums", lne()]])
            lib_zaids = all("." in z for z, _ in body[1])
            if lib_zaids:
                lean_body = lambda: [  # noqa: E731
                    "material",
                    [[wz.o, gz.lean(), [wf.o, parse_real(f) == 0], gf.lean()] for wz, gz, wf, gf, f in frs],
                    [f() for f in pls],
                ]
        elif bk == "thermal":
            ls = []
            for law in body[1]:
                wl, gl = Word(law, True), Slot("req")
                ev += [wl, gl]
                ls.append((wl, gl))
            lean_body = lambda: ["thermal", [[w.o, g.lean()] for w, g in ls]]  # noqa: E731
        elif bk == "mode":
            ls = []
            for p in body[1]:
                wl, gl = Word(p, True), Slot("req")
                ev += [wl, gl]
                ls.append((wl, gl))
            lean_body = lambda: ["mode", [[w.o, g.lean()] for w, g in ls]]  # noqa: E731
        elif bk == "numbers_opt":  # SI/SP/SB/DS with an option letter
            wl, gl = Word(body[1], True), Slot("req")
            ev += [wl, gl]
            eve, lne = ev_entries(body[2])
            ev += eve
            xop = "xcard"
            lean_body = lambda: ["lettered", wl.o, gl.lean(), lne()]  # noqa: E731
        elif bk == "tally":  # F cards: bins and groups, total T
            parts = []  # ("n", Word, Slot) | ("g", open slot, [(Word, Slot)], after slot)
            for it in body[1]:
                if it[0] == "n":
                    w_, s_ = Word(it[1]), Slot("req")
                    ev += [w_, s_]
                    parts.append(("n", w_, s_))
                else:
                    so = Slot("opt")
                    ev += [Word("("), so]
                    inner = []
                    for j, x in enumerate(it[1]):
                        w_, s_ = Word(x), Slot("req" if j < len(it[1]) - 1 else "opt")
                        ev += [w_, s_]
                        inner.append((w_, s_))
                    sa = Slot("opt")
                    ev += [Word(")"), sa]
                    parts.append(("g", so, inner, sa))
            tot = None
            if body[2]:
                ev[-1].kind = "req"
                wt, st = Word("t", True), Slot("req")
                ev += [wt, st]
                tot = (wt, st)

            def lean_body():
                items = []
                for pt in parts:
                    if pt[0] == "n":
                        ent = [["real", [pt[1].o, int(pt[1].o) == 0]], pt[2].lean()]
                        if items and items[-1][0] == "bins":
                            items[-1][1].append(ent)
                        else:
                            items.append(["bins", [ent]])
                    else:
                        items.append(["group", pt[1].lean(), [[["real", [w_.o, int(w_.o) == 0]], s_.lean()] for w_, s_ in pt[2]], pt[3].lean()])
                return ["tally", items, [tot[0].o, tot[1].lean()] if tot else None]

            xop = "xcard"
        elif bk == "fs":
            segs = []
            for x in body[1]:
                w_, s_ = Word(x), Slot("req")
                ev += [w_, s_]
                segs.append((w_, s_))
            tot = None
            if body[2]:
                wt, st = Word("t", True), Slot("req")
                ev += [wt, st]
                tot = (wt, st)
            xop = "xcard"
            lean_body = lambda: ["segments", [[["real", [w_.o, int(w_.o) == 0]], s_.lean()] for w_, s_ in segs], [tot[0].o, tot[1].lean()] if tot else None]  # noqa: E731
        elif bk == "sdef":
            sps = []
            for key, val in body[1]:
                kwd, sep = Word(key, True), Sep()
                ev += [kwd, sep]
                if val[0] == "nums":
                    eve, lne = ev_entries(val[1])
                    ev += eve
                    sps.append(lambda kwd=kwd, sep=sep, lne=lne: [kwd.o, sep.lean(), ["nums", lne()]])
                elif val[0] == "dist":
                    wd, sd = Word("d" + val[1], True), Slot("req")
                    ev += [wd, sd]
                    sps.append(lambda kwd=kwd, sep=sep, wd=wd, sd=sd: [kwd.o, sep.lean(), ["dist", wd.o[:1], wd.o[1:], sd.lean()]])
                else:
                    ww, sw = Word(val[1], True), Slot("req")
                    ev += [ww, sw]
                    sps.append(lambda kwd=kwd, sep=sep, ww=ww, sw=sw: [kwd.o, sep.lean(), ["particle", ww.o, sw.lean()]])
            xop = "xcard"
            lean_body = lambda: ["sdef", [f() for f in sps]]  # noqa: E731
        elif bk == "text":  # FC / SC: free text to the end of the line; one word for the layout
            ev += [Word(body[1]), Slot("req")]
        else:
            raise AssertionError(bk)
        if len(ev) == 3:
            g0.kind = "end"
        _last_slot(ev).kind = "end"
        if bk == "text":
            for e in ev:
                if isinstance(e, Slot) and e is not lead:
                    e.kind = "blank" if e.kind == "req" else e.kind
        lean = None
        if lean_body is not None:

            def lean():
                return {
                    "lead": lead.lean(),
                    "classifier": lean_classifier(cw, spec.get("star"), name, spec.get("num"), pl, name_cls, "PARTICLE_SPECIAL"),
                    "g0": g0.lean(),
                    "body": lean_body(),
                }

        return Built(ev, lean, xop)
    raise AssertionError(kind)


def _cls(word, cls):
    return {"star": False, "name": word, "cls": cls, "number": None, "particles": []}


def _last_slot(ev):
    for e in reversed(ev):
        if isinstance(e, Slot):
            return e
        if isinstance(e, Sep):
            return e.a
    raise AssertionError("no slot")


# ----------------------------------------------------------------------------------------------- layout (5.3)
COMMENTS = ["a comment", "1 0 -1", "imp:n=1", "text & more", "cost = $5 (approx)", "", "x", "c c c", "fill=3 (1 2 3)"]
LIMIT = 78


def _mixcase(rng, s, mode):
    if mode == "single":
        return s
    if mode == "wrapped":
        return s.upper() if rng.random() < 0.5 else s
    return "".join(ch.upper() if rng.random() < 0.5 else ch.lower() for ch in s)


def layout(built, mode, seed):
    """Fill every slot; returns the text (with embedded newlines)."""
    rng = random.Random(seed)
    ev = built.events
    flat = []
    for e in ev:
        if isinstance(e, Sep):
            flat += [e.b, ("eq", e), e.a]
        else:
            flat.append(e)
    # decide separators
    for e in ev:
        if isinstance(e, Sep):
            if mode == "single":
                e.eq = True
            elif mode == "wrapped":
                e.eq = rng.random() < 0.5
            else:
                e.eq = rng.random() < 0.6
    col = 0
    out = []

    def next_len(i):
        for x in flat[i + 1 :]:
            if isinstance(x, Word):
                return len(x.t)
            if isinstance(x, tuple) and x[1].eq:
                return 1
        return 0

    def blanks(lo=1, hi=1):
        return " " * rng.randint(lo, hi)

    def brk(hash_next=False):
        """a line break of one of the four kinds, then continuation blanks; list of pieces.
        a continuation line never BEGINS with '#' inside columns 1-5 (that announces the vertical format; a '#'
        that follows other words on the line, as in `2 0 #1`, is fine since MontePy 453a5e4)"""
        r = rng.random() if mode != "single" else 0.0
        cont = " " * (5 if mode == "single" else rng.randint(5, 12))
        if r < 0.4:
            return [("s", "\n" + cont)]
        if r < 0.55:
            return [("s", " "), ("a", "&"), ("s", "\n" + " " * rng.randint(5 if hash_next else 0, 8))] if rng.random() < 0.8 else [("s", " "), ("a", "&"), ("s", "\n" + cont)]
        if r < 0.8 and col < 52:
            return [("s", blanks(1, 3)), ("d", "$" + (" " if rng.random() < 0.8 else "") + rng.choice(COMMENTS)), ("s", "\n" + cont)]
        if r < 0.8:
            return [("s", "\n" + cont)]
        ps = [("s", "\n")]
        for _ in range(rng.randint(1, 2)):
            c = rng.choice("cC")
            txt = rng.choice(COMMENTS)
            ps.append(("c", " " * rng.randint(0, 4) + c + (" " + txt if txt else " ")))
            ps.append(("s", "\n"))
        ps[-1] = ("s", "\n" + cont)
        return ps

    for i, e in enumerate(flat):
        if isinstance(e, Word):
            e.o = _mixcase(rng, e.t, mode) if e.ci else e.t
            out.append(e.o)
            col = len(e.o) if "\n" in e.o else col + len(e.o)
            continue
        if isinstance(e, tuple):
            if e[1].eq:
                out.append("=")
                col += 1
            continue
        s = e
        nl = next_len(i)
        _nw = next((x for x in flat[i + 1 :] if isinstance(x, Word)), None)
        # words that must not begin a line inside columns 1-5: '#' (vertical format) and the letter c (comment line)
        _hash = bool(_nw and (_nw.t.startswith("#") or _nw.t.lower() == "c"))
        must_break = col + 1 + nl > LIMIT
        k = s.kind
        pieces = []
        if k == "none":
            pieces = []
        elif k == "lead":
            pieces = [("s", blanks(1, 4))] if mode == "mixed" and rng.random() < 0.4 else []
        elif k == "blank":
            pieces = [("s", " ")]
        elif k == "end":
            r = rng.random()
            if mode == "single" or r < 0.5:
                pieces = []
            elif r < 0.75:
                pieces = [("s", blanks(1, 3))]
            elif col < 52:
                pieces = [("s", blanks(1, 3)), ("d", "$ " + rng.choice(COMMENTS))]
        elif k in ("sepb", "sepa"):
            sep = s.sep
            if k == "sepb":
                if not sep.eq:
                    pieces = brk(_hash) if must_break or (mode == "wrapped" and rng.random() < 0.2) else [("s", blanks(1, 1 if mode != "mixed" else 6))]
                elif mode == "mixed" and rng.random() < 0.4:
                    pieces = [("s", blanks(1, 3))]
            else:
                if sep.eq and mode == "mixed" and rng.random() < 0.4:
                    pieces = [("s", blanks(1, 3))]
                elif sep.eq and must_break:
                    pieces = brk(_hash)
        elif k == "req":
            bl = blanks(1, 1 if mode != "mixed" else 12)
            if col + len(bl) + nl > LIMIT or (mode == "wrapped" and rng.random() < 0.3) or (mode == "mixed" and rng.random() < 0.05):
                pieces = brk(_hash)
            else:
                pieces = [("s", bl)]
        elif k == "opt":
            bl = blanks(1, 4)
            if must_break or (mode != "single" and col + len(bl) + nl > LIMIT):
                pieces = brk(_hash)
            elif mode == "single":
                pieces = []
            elif rng.random() < 0.5:
                pieces = []
            elif mode == "wrapped" and rng.random() < 0.3:
                pieces = brk(_hash)
            else:
                pieces = [("s", bl)]
        # merge adjacent blanks into one SPACE token (the lexer's \s+ is greedy)
        merged = []
        for c, t in pieces:
            if merged and merged[-1][0] == "s" and c == "s":
                merged[-1] = ("s", merged[-1][1] + t)
            else:
                merged.append((c, t))
        s.pieces = merged
        txt = s.text()
        out.append(txt)
        col = len(txt) - txt.rfind("\n") - 1 if "\n" in txt else col + len(txt)
    # a sepb slot directly followed by sepa without "=" would give two adjacent SPACE pieces: merge
    text = "".join(out)
    return text


def words_of(built):
    """the words of the laid-out sentence in the granularity of Spec.render (classifier = one word, '*N' = one word)"""
    ws = []
    star = False
    for e in built.events:
        if isinstance(e, Word):
            if star:
                ws.append("*" + e.o)
                star = False
            elif e.o == "*" and built.op == "surface":
                star = True
            else:
                ws.append(e.o)
    return ws


# ----------------------------------------------------------------------------------------------- generators of specs
ZAIDS = ["1001", "1002", "6000", "6012", "8016", "8017", "13027", "26056", "40090", "82208", "92235", "92238", "94239"]
LAWS = ["lwtr.20t", "hwtr.20t", "grph.20t", "poly.20t", "be.20t", "h-h2o.40t", "be-met.40t", "u/o2.20t", "hzr/h.20t", "o2-u.40t", "benz.20t"]
LIBS = {"nlib": "c", "plib": "p", "pnlib": "u", "elib": "e", "hlib": "h", "alib": "a", "slib": "s", "tlib": "t", "dlib": "d"}


def gen_geom(rng, surfs, cells, depth=0, level=2):
    """level 2 = Union, 1 = Inter, 0 = Factor"""
    if level == 2:
        n = rng.choice([1, 1, 1, 2, 3]) if depth < 2 else 1
        g = gen_geom(rng, surfs, cells, depth, 1)
        for _ in range(n - 1):
            g = ["u", g, gen_geom(rng, surfs, cells, depth, 1)]
        return g
    if level == 1:
        n = rng.choice([1, 2, 2, 3, 4]) if depth < 1 else rng.choice([1, 1, 2])
        g = gen_geom(rng, surfs, cells, depth, 0)
        for _ in range(n - 1):
            g = ["i", g, gen_geom(rng, surfs, cells, depth, 0)]
        return g
    r = rng.random()
    if r < 0.6 or depth >= 3:
        return ["s", rng.choice(["", "-", "-", "+"]) + str(rng.choice(surfs))]
    if r < 0.72 and cells:
        return ["c", ["s", str(rng.choice(cells))]]
    if r < 0.82:
        return ["c", ["p", gen_geom(rng, surfs, cells, depth + 1, 2)]]
    inner = gen_geom(rng, surfs, cells, depth + 1, 2)
    if rng.random() < 0.2 and depth < 2:
        inner = ["p", inner]  # redundant parentheses
    return ["p", inner]


def _transform_entries(rng, n):
    es = gen_entries(rng, min(n, 12), shortcuts="", p_short=0)
    if n == 13:
        es.append(["real", rng.choice(["1", "-1"])])
    return es


CELL_KEYS_SIMPLE = ["tmp", "pwt", "cosy", "bflcl", "nonu"]
CELL_KEYS_PL = ["ext", "fcl", "elpt", "unc"]
CELL_KEYS_IDX_PL = ["wwn", "dxc"]


def gen_pl(rng, particles, n=None):
    n = n or rng.choice([1, 1, 1, 2, 3])
    return rng.sample(particles, min(n, len(particles)))


def gen_cell_param(rng, key, tables, ctx):
    particles = ctx["particles"]
    one = lambda s: ["nums", [["real", s]]]  # noqa: E731
    if key == "imp":
        return {"key": "imp", "pl": gen_pl(rng, particles), "val": one(gen_real(rng, nonneg=True, small=True))}
    if key == "vol":
        return {"key": "vol", "val": one(gen_real(rng, nonneg=True, small=True))}
    if key == "u":
        return {"key": "u", "val": one(rng.choice(["", "-"]) + str(rng.choice(ctx["universes"])))}
    if key == "lat":
        return {"key": "lat", "val": one(rng.choice(["1", "2"]))}
    if key == "fill":
        star = rng.random() < 0.2
        r = rng.random()
        u = str(rng.choice(ctx["universes"]))
        if r < 0.4:
            return {"key": "fill", "star": False, "val": one(u)}
        if r < 0.55:
            return {"key": "fill", "star": False, "val": ["numsParen", [["real", u]], [["real", str(rng.choice(ctx["transforms"]))]]]}
        if r < 0.75:
            n = rng.choice([3, 9, 12, 13])
            return {"key": "fill", "star": star, "val": ["numsParen", [["real", u]], _transform_entries(rng, n)]}
        rs = [[str(rng.randint(-2, 0)), str(rng.randint(0, 2))] for _ in range(3)]
        if rng.random() < 0.5:
            rs[rng.randrange(3)] = ["0", "0"]
        cnt = 1
        for a, b in rs:
            cnt *= int(b) - int(a) + 1
        if cnt > 12:
            rs = [["0", "1"], ["0", "0"], ["-1", "0"]]
            cnt = 4
        return {"key": "fill", "star": False, "val": ["lattice", rs, [["real", str(rng.choice(ctx["universes"]))] for _ in range(cnt)]]}
    if key == "trcl":
        star = rng.random() < 0.3
        if rng.random() < 0.4:
            return {"key": "trcl", "star": False, "val": one(str(rng.choice(ctx["transforms"])))}
        return {"key": "trcl", "star": star, "val": ["paren", _transform_entries(rng, rng.choice([3, 9, 12, 13]))]}
    if key in CELL_KEYS_SIMPLE:
        idx = str(rng.randint(1, 9)) if rng.random() < 0.4 else None
        return {"key": key, "idx": idx, "val": one(gen_real(rng, nonneg=True, small=True))}
    if key in CELL_KEYS_PL:
        return {"key": key, "pl": gen_pl(rng, particles, 1), "val": one(gen_real(rng, small=True))}
    if key in CELL_KEYS_IDX_PL:
        return {"key": key, "idx": str(rng.randint(1, 9)), "pl": gen_pl(rng, particles, 1), "val": one(gen_real(rng, nonneg=True, small=True))}
    if key == "pd":
        return {"key": "pd", "idx": str(rng.randint(1, 9) * 10 + 5), "val": one(gen_real(rng, nonneg=True, small=True))}
    raise AssertionError(key)


def default_ctx(tables):
    return {"particles": tables["particles"], "universes": list(range(1, 9)), "transforms": list(range(1, 9)), "surfs": list(range(1, 30)), "cells": list(range(1, 30))}


def gen_cell(rng, tables, ctx=None, num=None):
    ctx = ctx or default_ctx(tables)
    keys = [k.lower() for k in tables["cellKeywords"]]
    spec = {"kind": "cell", "num": str(num or rng.choice([rng.randint(1, 99), rng.randint(1, 99999999)]))}
    if rng.random() < 0.4:
        spec["mat"] = None
    else:
        spec["mat"] = [str(rng.choice(ctx.get("materials") or list(range(1, 20)))), gen_real(rng, nonzero=True, small=True)]
    spec["geom"] = gen_geom(rng, ctx["surfs"], [c for c in ctx["cells"] if str(c) != spec["num"]])
    n = rng.choice([0, 1, 1, 2, 3, 5])
    chosen = rng.sample(keys, n)
    params = []
    used_imp = set()
    for k in chosen:
        p = gen_cell_param(rng, k, tables, ctx)
        if k == "imp":
            used_imp |= set(p["pl"])
        params.append(p)
    # a second IMP entry for other particles (importance split over several entries)
    if "imp" in chosen and rng.random() < 0.4:
        rest = [x for x in ctx["particles"] if x not in used_imp]
        if rest:
            params.insert(rng.randrange(len(params) + 1), {"key": "imp", "pl": rng.sample(rest, 1), "val": ["nums", [["real", gen_real(rng, nonneg=True, small=True)]]]})
    # the same indexed keyword twice with different indices (TMP1 TMP2; WWN1:n WWN2:n)
    if rng.random() < 0.08:
        k = rng.choice(["tmp", "wwn", "pd"])
        a = gen_cell_param(rng, k, tables, ctx)
        b = gen_cell_param(rng, k, tables, ctx)
        a["idx"], b["idx"] = ("1", "2") if k != "pd" else ("5", "15")
        if k == "wwn":
            b["pl"] = a["pl"]
        params = [p for p in params if p["key"] != k] + [a, b]
    if any(p["key"] == "lat" for p in params) and not any(p["key"] == "fill" for p in params):
        params.append(gen_cell_param(rng, "fill", tables, ctx))
    spec["params"] = params
    return spec


def gen_surface(rng, tables, ctx=None, num=None, mn=None):
    ar = dict((m, a) for m, a in tables["surfaceArities"])
    mn = mn or rng.choice(list(ar))
    n = rng.choice(ar[mn])
    spec = {"kind": "surface", "mod": rng.choice(["", "", "", "*", "+"]), "num": str(num or rng.choice([rng.randint(1, 99), rng.randint(1, 99999999)]))}
    r = rng.random()
    tr = (ctx or {}).get("transforms") or list(range(1, 9))
    per = (ctx or {}).get("periodic") or list(range(1, 30))
    spec["ptr"] = None if r < 0.7 else (str(rng.choice(tr)) if r < 0.9 else "-" + str(rng.choice(per)))
    spec["mn"] = mn
    if mn in ("cx", "cy", "cz"):
        spec["entries"] = [["real", gen_real(rng, positive=True, small=True)]]
    else:
        spec["entries"] = gen_entries(rng, n, shortcuts="RMI" if n > 1 else "", p_short=0.25)
    return spec


def gen_material(rng, tables, num=None):
    n = rng.choice([1, 1, 2, 3, 5])
    sign = rng.choice(["", "-"])
    frs = []
    lib_style = rng.random()
    for z in rng.sample(ZAIDS, n):
        r = rng.random()
        if lib_style < 0.6 or (lib_style < 0.8 and r < 0.5):
            z += rng.choice([".80c", ".70c", ".00c", ".31c", ".710nc", ".24y"])
        f = gen_real(rng, positive=True, small=True).lstrip("+")
        frs.append([z, sign + f])
    params = []
    for key in rng.sample(tables["libKeys"] + tables["numKeys"], rng.choice([0, 0, 1, 2, 3])):
        if key in tables["libKeys"]:
            params.append([key, ["lib", f"{rng.randint(0, 99):02d}" + LIBS[key]]])
        else:
            k = {"refc": rng.randint(1, 3), "refs": rng.randint(1, 4)}.get(key, 1)
            params.append([key, ["nums", [["real", gen_real(rng, nonneg=True, small=True)] for _ in range(k)]]])
    return {"kind": "data", "name": "m", "num": str(num or rng.randint(1, 999)), "body": ["material", frs, params]}


def gen_data(rng, tables, which=None, ctx=None):
    ctx = ctx or default_ctx(tables)
    P = tables["particles"]
    kinds = ["m", "mt", "tr", "mode", "celldata", "f", "f5", "tallyaux", "fs", "fc", "sdef", "sisp", "sc", "ksrc", "kcode", "generic"]
    k = which or rng.choice(kinds)
    if k == "m":
        return gen_material(rng, tables)
    if k == "mt":
        return {"kind": "data", "name": "mt", "num": str(rng.randint(1, 999)), "body": ["thermal", rng.sample(LAWS, rng.choice([1, 1, 2, 3]))]}
    if k == "tr":
        n = rng.choice([3, 3, 8, 9, 12, 13])
        es = gen_entries(rng, 12 if n == 13 else n, shortcuts="RMI", jumps=True, p_short=0.2)
        if n == 13:
            es.append(["real", rng.choice(["1", "-1"])])
        return {"kind": "data", "star": rng.random() < 0.3, "name": "tr", "num": str(rng.randint(1, 999)), "body": ["numbers", None, es]}
    if k == "mode":
        return {"kind": "data", "name": "mode", "body": ["mode", rng.sample(P, rng.choice([1, 2, 3, 5]))]}
    if k == "celldata":
        name = rng.choice(["imp", "vol", "u", "lat", "fill"])
        n = rng.randint(1, 10)
        if name == "imp":
            return {"kind": "data", "name": "imp", "pl": gen_pl(rng, P), "body": ["numbers", None, gen_entries(rng, n, shortcuts="RMI", nonneg=True)]}
        if name == "vol":
            return {"kind": "data", "name": "vol", "body": ["numbers", "no" if rng.random() < 0.4 else None, gen_entries(rng, n, shortcuts="RMI", jumps=True, nonneg=True)]}
        if name == "lat":
            es = [["jump", None] if rng.random() < 0.3 else ["real", rng.choice(["1", "2"])] for _ in range(n)]
            return {"kind": "data", "name": "lat", "body": ["numbers", None, es]}
        return {"kind": "data", "name": name, "body": ["numbers", None, gen_entries(rng, n, shortcuts="R", jumps=True, ints=True)]}
    if k == "f":
        t = rng.choice([1, 2, 4, 6, 7, 8])
        num = str(rng.randint(0, 99) * 10 + t)
        items = []
        for _ in range(rng.randint(1, 5)):
            if rng.random() < 0.6:
                items.append(["n", gen_int(rng)])
            else:
                items.append(["g", [gen_int(rng) for _ in range(rng.randint(1, 4))]])
        return {"kind": "data", "star": rng.random() < 0.2, "name": "f", "num": num, "pl": gen_pl(rng, P, rng.choice([1, 1, 2])), "body": ["tally", items, rng.random() < 0.3]}
    if k == "f5":
        num = str(rng.randint(0, 99) * 10 + 5)
        es = []
        for _ in range(rng.randint(1, 3)):
            es += gen_entries(rng, 4, shortcuts="", p_short=0)
        return {"kind": "data", "name": "f", "num": num, "pl": gen_pl(rng, P, 1), "body": ["numbers", None, es]}
    if k == "tallyaux":
        name = rng.choice(["fm", "sd", "e", "t", "c", "em", "tm", "cm", "de", "df"])
        es = gen_entries(rng, rng.randint(1, 12), shortcuts="RMI", jumps=name in ("sd", "fm"), nonneg=name not in ("fm",))
        return {"kind": "data", "name": name, "num": str(rng.randint(1, 999)), "body": ["numbers", None, es]}
    if k == "fs":
        return {"kind": "data", "name": "fs", "num": str(rng.randint(1, 999)), "body": ["fs", [rng.choice(["", "-"]) + gen_int(rng) for _ in range(rng.randint(1, 5))], rng.random() < 0.3]}
    if k == "fc":
        return {"kind": "data", "name": "fc", "num": str(rng.randint(1, 999)), "body": ["text", rng.choice(["total flux in the core", "a = (b) $ c", "1 2 3", "imp:n=1"])]}
    if k == "sc":
        return {"kind": "data", "name": "sc", "num": str(rng.randint(1, 999)), "body": ["text", rng.choice(["source energy", "watt fission spectrum (a=1)", "1 2 3"])]}
    if k == "sdef":
        items = []
        for key in rng.sample(tables["sdefKeys"], rng.choice([0, 1, 2, 3, 5])):
            r = rng.random()
            if key == "par":
                items.append([key, ["word", rng.choice(P)] if r < 0.8 else ["nums", [["real", str(rng.randint(1, 9))]]]])
            elif key in ("vec", "pos", "axs"):
                items.append([key, ["nums", gen_entries(rng, 3, shortcuts="", p_short=0)] if r < 0.8 else ["dist", gen_int(rng)]])
            else:
                items.append([key, ["nums", [["real", gen_real(rng, small=True)]]] if r < 0.7 else ["dist", gen_int(rng)]])
        return {"kind": "data", "name": "sdef", "body": ["sdef", items]}
    if k == "sisp":
        name = rng.choice(["si", "sp", "sb", "ds"])
        letter = rng.choice({"si": "hlas", "sp": "dcvw", "sb": "dcvw", "ds": "hltqs"}[name]) if rng.random() < 0.5 else None
        es = gen_entries(rng, rng.randint(1, 10), shortcuts="RI", p_short=0.2)
        body = ["numbers_opt", letter, es] if letter else ["numbers", None, es]
        return {"kind": "data", "name": name, "num": str(rng.randint(1, 999)), "body": body}
    if k == "ksrc":
        es = []
        for _ in range(rng.randint(1, 3)):
            es += gen_entries(rng, 3, shortcuts="R", p_short=0.1)
        return {"kind": "data", "name": "ksrc", "body": ["numbers", None, es]}
    if k == "kcode":
        return {"kind": "data", "name": "kcode", "body": ["numbers", None, gen_entries(rng, rng.randint(1, 4), shortcuts="", nonneg=True)]}
    # generic
    names = ["nps", "ctme", "print", "prdmp", "phys", "cut", "dbcn", "void", "totnu", "nonu", "area", "tmp", "thtme", "wwe", "wwn", "wwp", "esplt", "ext", "dxt", "pwt", "fcl", "bbrem", "lost", "idum", "rdum", "elpt", "pd", "dxc"]
    name = rng.choice(names)
    num = None
    pl = None
    if name in ("tmp", "wwn", "pd", "dxc") or (name in ("area",) and False):
        num = str(rng.randint(1, 9))
    if name in ("phys", "cut", "wwe", "wwn", "wwp", "esplt", "ext", "dxt", "fcl", "elpt", "dxc"):
        pl = gen_pl(rng, P, 1)
    n = rng.randint(0 if name in ("print", "void", "totnu") else 1, 10)
    es = gen_entries(rng, n, shortcuts="RMI", jumps=True, p_short=0.25) if n else []
    return {"kind": "data", "name": name, "num": num, "pl": pl, "body": ["numbers", None, es]}


# ----------------------------------------------------------------------------------------------- rule tags
def rules_of(spec):
    """G rule tags exercised by a sentence, in order of appearance (for coverage and adjacent pairs)."""
    t = []
    k = spec["kind"]
    if k == "cell":
        t.append("Cell")
        t.append("Mat:void" if spec["mat"] is None else "Mat:density")

        def geom(g):
            if g[0] == "s":
                t.append("Atom:surf" + ({"-": "-neg", "+": "-plus"}.get(g[1][:1], "")))
            elif g[0] == "p":
                t.append("Atom:paren")
                geom(g[1])
            elif g[0] == "c":
                t.append("Factor:compl-" + ("cell" if g[1][0] == "s" else "paren"))
                geom(g[1])
            elif g[0] == "i":
                geom(g[1])
                t.append("Inter")
                geom(g[2])
            else:
                geom(g[1])
                t.append("Union")
                geom(g[2])

        geom(spec["geom"])
        seen = {}
        for p in spec["params"]:
            tag = "CellParam:" + ("*" if p.get("star") else "") + p["key"]
            v = p["val"]
            if v[0] != "nums":
                tag += "-" + v[0]
            t.append(tag)
            if p.get("idx"):
                seen.setdefault(p["key"], set()).add(p["idx"])
            if p.get("pl") and len(p["pl"]) > 1:
                t.append("PL:list")
            for x in p.get("pl") or []:
                if x in ("u", "x", "y", "z"):
                    t.append("PL:keyword-letter")
                if x == "c":
                    t.append("PL:letter-c")
            for es in ([v[1]] if v[0] in ("nums", "paren") else [v[1], v[2]] if v[0] == "numsParen" else [v[2]]):
                for e in es:
                    t.extend(x for x in entry_rule(e) if x != "Entry:real")
        for key, idxs in seen.items():
            if len(idxs) > 1:
                t.append("CellParam:indexed-repeat")
    elif k == "surface":
        t.append("Surface:" + spec["mn"])
        if spec["mod"]:
            t.append("Surface:mod" + spec["mod"])
        if spec["ptr"]:
            t.append("Surface:periodic" if spec["ptr"].startswith("-") else "Surface:transform")
        for e in spec["entries"]:
            t.extend(entry_rule(e))
    else:
        b = spec["body"]
        name = spec["name"]
        t.append("Data:" + ("*" if spec.get("star") else "") + name)
        if spec.get("pl") and len(spec["pl"]) > 1:
            t.append("PL:list")
        for x in spec.get("pl") or []:
            if x in ("u", "x", "y", "z"):
                t.append("PL:keyword-letter")
            if x == "c":
                t.append("PL:letter-c")
        if b[0] in ("numbers", "numbers_opt"):
            if b[1]:
                t.append("Data:keyword-" + b[1] if b[0] == "numbers" else "Data:option-letter")
                if b[0] == "numbers_opt" and b[1] == "c":
                    t.append("PL:letter-c")
            if not b[2]:
                t.append("GenericEntries:empty")
            for e in b[2]:
                t.extend(entry_rule(e))
        elif b[0] == "material":
            for z, f in b[1]:
                t.append("Zaid:lib" if "." in z else "Zaid:bare")
                if len(z.split(".")[-1]) == 5 and "." in z:
                    t.append("Zaid:3digit-lib")
            if len({"." in z for z, _ in b[1]}) == 2:
                t.append("Zaid:mixed")
            t.append("Material:mass" if b[1][0][1].startswith("-") else "Material:atom")
            for key, val in b[2]:
                t.append("MatParam:" + key)
        elif b[0] == "thermal":
            for law in b[1]:
                t.append("Law" + (":slash" if "/" in law else ":hyphen" if "-" in law else ""))
        elif b[0] == "mode":
            for p in b[1]:
                t.append("Mode:particle" + ("-keyword-letter" if p in ("u", "x", "y", "z") else ""))
                if p == "c":
                    t.append("PL:letter-c")
        elif b[0] == "tally":
            for it in b[1]:
                t.append("TallyBins:" + ("number" if it[0] == "n" else "group"))
            if b[2]:
                t.append("TallyBins:T")
        elif b[0] == "fs":
            t.append("FS:" + ("empty" if not b[1] else "list"))
            if b[2]:
                t.append("FS:T")
        elif b[0] == "sdef":
            if not b[1]:
                t.append("Sdef:empty")
            for key, val in b[1]:
                t.append("Sdef:" + key + "-" + val[0])
        elif b[0] == "text":
            t.append("Text")
    return t


# ----------------------------------------------------------------------------------------------- shrink candidates
def _simpler_entries(es, fixed_arity):
    """smaller variants of an entry list"""
    out = []
    if not fixed_arity:
        for i in range(len(es)):
            if len(es) > 1:
                out.append(es[:i] + es[i + 1 :])
    for i, e in enumerate(es):
        if e[0] in ("rep", "mul") and e[1] not in ("1", "2"):
            out.append(es[:i] + [[e[0], "2", e[2]]] + es[i + 1 :])
        if e[0] == "mul" and e[2] not in ("2", "0.5") :
            out.append(es[:i] + [["mul", e[1], "2" if __import__("re").fullmatch(r"[+-]?\d+", e[2]) else "0.5"]] + es[i + 1 :])
        if e[0] == "interp" and (e[1], e[4]) not in (("1", "5"), ("1", "0"), ("5", "1")):
            b = "0" if parse_real(e[4]) == 0 else "5"
            out.append(es[:i] + [["interp", "1", e[2], e[3], b]] + es[i + 1 :])
        if e[0] != "real":
            vals = entry_values(e)
            if all(v is not None for v in vals) and e[0] != "interp":
                plain = [["real", _spell(v)] for v in vals]
                out.append(es[:i] + plain + es[i + 1 :])
            elif e[0] == "interp":
                n = (e[2] or 1) + 2
                out.append(es[:i] + [["real", str(j + 1)] for j in range(n)] + es[i + 1 :])
                if e[2] and e[2] > 1 and not fixed_arity:
                    out.append(es[:i] + [["interp", e[1], 1, e[3], e[4]]] + es[i + 1 :])
            elif e[0] == "jump" and not fixed_arity and e[1]:
                out.append(es[:i] + [["jump", None]] + es[i + 1 :])
        elif e[1] not in ("1", "2"):
            out.append(es[:i] + [["real", "1" if parse_real(e[1]) != 1 else "2"]] + es[i + 1 :])
    return out


def _spell(v):
    if isinstance(v, Fraction) and v.denominator == 1:
        return str(v.numerator)
    return repr(float(v))


def shrink_candidates(spec):
    k = spec["kind"]
    out = []
    if k == "cell":
        for i in range(len(spec["params"])):
            rest = spec["params"][:i] + spec["params"][i + 1 :]
            if spec["params"][i]["key"] == "fill" and any(p["key"] == "lat" for p in rest):
                continue  # a lattice cell keeps its FILL (well-formedness of 5.2)
            out.append(dict(spec, params=rest))
        if spec["mat"] is not None:
            out.append(dict(spec, mat=None))
            if spec["mat"][1] not in ("1", "-1"):
                out.append(dict(spec, mat=[spec["mat"][0], "-1" if spec["mat"][1].startswith("-") else "1"]))
        g = spec["geom"]

        def subs(g):
            if g[0] in "iu":
                yield g[1]
                yield g[2]
                for x in subs(g[1]):
                    yield [g[0], x, g[2]]
                for x in subs(g[2]):
                    yield [g[0], g[1], x]
            elif g[0] == "p":
                if g[1][0] in "sp":
                    yield g[1]
                for x in subs(g[1]):
                    yield ["p", x]
            elif g[0] == "c":
                yield g[1] if g[1][0] == "s" else g[1][1] if g[1][1][0] in "sp" else ["p", g[1][1]]
                for x in subs(g[1]):
                    if x[0] in "sp":
                        yield ["c", x]

        for x in subs(g):
            # an Inter/Union operand must stay at its level: wrap a union under an intersection
            out.append(dict(spec, geom=_fix_levels(x)))
        if g != ["s", "-1"] and g[0] == "s":
            out.append(dict(spec, geom=["s", "-1"]))
        if spec["num"] != "1":
            out.append(dict(spec, num="1"))
        for i, p in enumerate(spec["params"]):
            v = p["val"]
            alts = []
            if p.get("star"):
                alts.append(dict(p, star=False))
            if p.get("pl") and len(p["pl"]) > 1:
                for j in range(len(p["pl"])):
                    alts.append(dict(p, pl=p["pl"][:j] + p["pl"][j + 1 :]))
            if p.get("pl") and p["pl"] != ["n"] and len(p["pl"]) == 1:
                alts.append(dict(p, pl=["n"]))
            if v[0] == "nums":
                for es in _simpler_entries(v[1], True):
                    alts.append(dict(p, val=["nums", es]))
            for a in alts:
                out.append(dict(spec, params=spec["params"][:i] + [a] + spec["params"][i + 1 :]))
    elif k == "surface":
        if spec["mod"]:
            out.append(dict(spec, mod=""))
        if spec["ptr"]:
            out.append(dict(spec, ptr=None))
        if spec["num"] != "1":
            out.append(dict(spec, num="1"))
        for es in _simpler_entries(spec["entries"], True):
            out.append(dict(spec, entries=es))
    else:
        b = spec["body"]
        if spec.get("star"):
            out.append(dict(spec, star=False))
        if spec.get("pl") and len(spec["pl"]) > 1:
            for j in range(len(spec["pl"])):
                out.append(dict(spec, pl=spec["pl"][:j] + spec["pl"][j + 1 :]))
        if spec.get("pl") and len(spec["pl"]) == 1 and spec["pl"] != ["n"]:
            out.append(dict(spec, pl=["n"]))
        if b[0] in ("numbers", "numbers_opt"):
            fixed = spec["name"] in ("tr", "ksrc") or (spec["name"] == "f" and b[0] == "numbers")
            for es in _simpler_entries(b[2], fixed):
                if es or spec["name"] in ("print", "void", "totnu"):
                    out.append(dict(spec, body=[b[0], b[1], es]))
            if b[0] == "numbers" and b[1]:
                out.append(dict(spec, body=[b[0], None, b[2]]))
        elif b[0] == "material":
            for i in range(len(b[1])):
                if len(b[1]) > 1:
                    out.append(dict(spec, body=["material", b[1][:i] + b[1][i + 1 :], b[2]]))
            for i in range(len(b[2])):
                out.append(dict(spec, body=["material", b[1], b[2][:i] + b[2][i + 1 :]]))
            for i, (z, f) in enumerate(b[1]):
                if f not in ("1", "-1"):
                    out.append(dict(spec, body=["material", b[1][:i] + [[z, "-1" if f.startswith("-") else "1"]] + b[1][i + 1 :], b[2]]))
        elif b[0] in ("thermal", "mode"):
            for i in range(len(b[1])):
                if len(b[1]) > 1:
                    out.append(dict(spec, body=[b[0], b[1][:i] + b[1][i + 1 :]]))
        elif b[0] == "tally":
            for i in range(len(b[1])):
                if len(b[1]) > 1:
                    out.append(dict(spec, body=["tally", b[1][:i] + b[1][i + 1 :], b[2]]))
            if b[2]:
                out.append(dict(spec, body=["tally", b[1], False]))
        elif b[0] == "fs":
            for i in range(len(b[1])):
                out.append(dict(spec, body=["fs", b[1][:i] + b[1][i + 1 :], b[2]]))
            if b[2]:
                out.append(dict(spec, body=["fs", b[1], False]))
        elif b[0] == "sdef":
            for i in range(len(b[1])):
                out.append(dict(spec, body=["sdef", b[1][:i] + b[1][i + 1 :]]))
    return out


def _fix_levels(g):
    """re-establish G's levels after a subtree replacement (wrap what is too high in parentheses)"""

    def lvl(g):
        return {"s": 0, "p": 0, "c": 0, "i": 1, "u": 2}[g[0]]

    if g[0] == "i":
        l, r = _fix_levels(g[1]), _fix_levels(g[2])
        if lvl(l) > 1:
            l = ["p", l]
        if lvl(r) > 0:
            r = ["p", r]
        return ["i", l, r]
    if g[0] == "u":
        l, r = _fix_levels(g[1]), _fix_levels(g[2])
        if lvl(r) > 1:
            r = ["p", r]
        return ["u", l, r]
    if g[0] == "p":
        return ["p", _fix_levels(g[1])]
    if g[0] == "c":
        x = _fix_levels(g[1])
        if x[0] == "s":
            x = ["s", x[1].lstrip("+-")]
        elif x[0] != "p":
            x = ["p", x]
        return ["c", x]
    return g
