"""Generator of well-formed MCNP problems inside the core grammar G (DESIGN.md section 5.2) and of
physical layouts of them (section 5.3).  Typed AST -> words -> characters/lines.

Used by the whole-file and edit-history properties (C01, C03, C04, C07, C09, C19 …).  Everything derives
from the `random.Random` handed in, so a case replays from its seed; the rendered text is stored in replays
anyway.

A problem is a plain dict (JSON-serialisable):
  {"message": [lines] | None, "title": str, "mode": ["n","p"],
   "cells": [{"number","mat","density","geom","imp":{p:val},"vol","u","fill","fill_tr","lat","trcl","tmp", "dollar"}],
   "surfaces": [{"number","modifier","pointer","mnemonic","constants"}],
   "materials": [{"number","comps":[[zaid,frac]],"mt":[laws]|None}],
   "transforms": [{"number","star","vals"}],
   "placement": {"imp":"cell"|"data","vol":..,"u":..,"lat":..,"fill":..},
   "extra_data": [[name, [entry words]]]}
geometry tree: ["s", number, positive?] | ["c", cellnumber] | ["and", [..]] | ["or", [..]] | ["not", tree]
"""

SURF_TYPES = [
    ("pz", 1), ("px", 1), ("py", 1), ("so", 1), ("cz", 1), ("cx", 1), ("cy", 1),
    ("c/z", 3), ("c/x", 3), ("c/y", 3), ("s", 4), ("p", 4), ("sz", 2), ("sx", 2), ("sy", 2),
    ("kz", 2), ("k/z", 4), ("rpp", 6), ("sph", 4), ("rcc", 7), ("sq", 10), ("gq", 10), ("tz", 6),
]
ZAIDS = ["1001.80c", "8016.80c", "92235.80c", "92238.80c", "26056.80c", "6000.80c", "40090.80c", "5010.80c"]
LAWS = ["lwtr.23t", "grph.20t", "h-zr.20t", "be-met.40t", "poly.10t"]
COMMENTS = ["fuel region", "c 1 0 -1", "imp:n=1", "a & b", "x = (y)", "cost $5", "TODO: check", "1 2 3", "vol=2", ""]


def fnum(rng, positive=False, small=False):
    """a float with a short exact decimal spelling"""
    kind = rng.random()
    if kind < 0.3:
        x = float(rng.randint(1, 40))
    elif kind < 0.7:
        x = rng.randint(1, 9999) / rng.choice([10, 100, 1000])
    elif kind < 0.85:
        x = rng.randint(1, 999) / 100.0 * 10 ** rng.randint(-4, 4)
    else:
        x = rng.randint(1, 99999) / 1e4
    if small:
        x = min(x, 50.0)
    if not positive and rng.random() < 0.3:
        x = -x
    return x


def spell(rng, x, fancy=True):
    """a spelling of the number x that MCNP reads back as x exactly (within double rounding)"""
    if isinstance(x, int):
        return str(x)
    s = repr(float(x))
    if s.endswith(".0") and rng.random() < 0.5:
        s = s[:-2] if rng.random() < 0.5 else s[:-1]
    if fancy:
        r = rng.random()
        if r < 0.08 and "e" not in s:
            s = "%.6e" % x
            m, e = s.split("e")
            m = m.rstrip("0")
            if m.endswith("."):
                m += "0"
            s = m + ("E" if rng.random() < 0.5 else "e") + e
            if float(s) != float(x):
                s = repr(float(x))
        elif r < 0.12 and s.startswith("0."):
            s = s[1:]
        elif r < 0.14 and s.startswith("-0."):
            s = "-" + s[2:]
        elif r < 0.17 and not s.startswith("-"):
            s = "+" + s
    return s


def gen_geom(rng, surf_numbers, comp_cells, depth=0, max_depth=3):
    r = rng.random()
    if depth >= max_depth or r < 0.35:
        if comp_cells and rng.random() < 0.12:
            return ["c", rng.choice(comp_cells)]
        return ["s", rng.choice(surf_numbers), rng.random() < 0.5]
    if r < 0.65:
        return ["and", [gen_geom(rng, surf_numbers, comp_cells, depth + 1, max_depth) for _ in range(rng.randint(2, 3))]]
    if r < 0.9:
        return ["or", [gen_geom(rng, surf_numbers, comp_cells, depth + 1, max_depth) for _ in range(rng.randint(2, 3))]]
    return ["not", gen_geom(rng, surf_numbers, comp_cells, depth + 1, max_depth)]


def geom_leaves(g):
    if g[0] in ("s", "c"):
        return [g]
    if g[0] == "not":
        return geom_leaves(g[1])
    return [l for x in g[1] for l in geom_leaves(x)]


def render_geom(g, rng=None, level=0, redundant=0.0):
    """words of the geometry with the parentheses precedence needs; `redundant` = probability of extra ones."""
    k = g[0]
    if k == "s":
        w = [("" if g[2] else "-") + str(g[1])]
        if g[2] and rng is not None and rng.random() < 0.1:
            w = ["+" + str(g[1])]
    elif k == "c":
        w = ["#", str(g[1])]
    elif k == "not":
        return ["#", "("] + render_geom(g[1], rng, 0, redundant) + [")"]
    elif k == "and":
        w = []
        for x in g[1]:
            w += render_geom(x, rng, 1, redundant)
        if rng is not None and rng.random() < redundant:
            return ["("] + w + [")"]
        return w
    else:  # or
        w = []
        for i, x in enumerate(g[1]):
            if i:
                w.append(":")
            w += render_geom(x, rng, 0, redundant)
        if level >= 1:
            return ["("] + w + [")"]
    if rng is not None and rng.random() < redundant:
        return ["("] + w + [")"]
    return w


def eval_geom(g, surf_side, cell_in):
    """truth value: surf_side[number] -> bool (positive side), cell_in[number] -> bool"""
    k = g[0]
    if k == "s":
        return surf_side[g[1]] == g[2]
    if k == "c":
        return not cell_in[g[1]]
    if k == "not":
        return not eval_geom(g[1], surf_side, cell_in)
    if k == "and":
        return all(eval_geom(x, surf_side, cell_in) for x in g[1])
    return any(eval_geom(x, surf_side, cell_in) for x in g[1])


DEFAULT_FEATURES = frozenset({
    "transforms", "periodic", "boundary", "universes", "complements", "thermal", "data_placement", "shortcuts", "message",
    "plain_params", "progressions",
})


def generate(rng, ncells=None, features=None):
    """features: optional set restricting what may appear, from
    {"transforms","periodic","boundary","universes","lattice","complements","thermal","data_placement","shortcuts","message","trcl"}
    ("lattice", "lat_simple", "trcl" and "shared_numbers" are not in the default set; "lat_simple" = lattice cells filled
    with one universe; "shared_numbers" = cell, surface, material, transform and universe numbers are all drawn from one
    small pool (1..6 or so), so that numbers of DIFFERENT kinds coincide: fill=5 (5), `5 5 -1.0 -5 u=5`, a matrix fill with
    an entry equal to its transform number, a transform pointer equal to a periodic partner's number; more transforms,
    universes, fill transforms and pointers than by default)"""
    F = features if features is not None else DEFAULT_FEATURES
    SH = "shared_numbers" in F
    ncells = ncells or rng.randint(2, 7)
    nsurf = rng.randint(3, 8)
    nmat = rng.randint(1, 3)
    mode = ["n"] if rng.random() < 0.5 else ["n", "p"]

    def fresh(k, lo=1, hi=99):
        if SH:
            return sorted(rng.sample(range(1, max(7, k + 2)), k))
        return sorted(rng.sample(range(lo, hi), k))

    tr_numbers = fresh(rng.randint(1, 3) if SH else rng.randint(1, 2), 1, 30) if "transforms" in F and rng.random() < (0.9 if SH else 0.6) else []
    transforms = []
    for n in tr_numbers:
        k = rng.choice([3, 3, 12, 9])
        vals = [fnum(rng, small=True) for _ in range(3)]
        if k >= 9:
            vals += [1.0, 0.0, 0.0, 0.0, 1.0, 0.0, 0.0, 0.0, 1.0][: k - 3]
        transforms.append({"number": n, "star": False, "vals": vals})

    surf_numbers = fresh(nsurf, 1, 200)
    surfaces = []
    for n in surf_numbers:
        mn, ar = rng.choice(SURF_TYPES)
        consts = [fnum(rng, small=True) for _ in range(ar)]
        if mn in ("cz", "cx", "cy", "so", "c/z", "c/x", "c/y", "s", "sph", "sz", "sx", "sy"):
            consts[-1] = abs(consts[-1]) or 1.0
        s = {"number": n, "modifier": "", "pointer": None, "mnemonic": mn, "constants": consts}
        if "boundary" in F and rng.random() < 0.12:
            s["modifier"] = rng.choice(["*", "+"])
        if tr_numbers and rng.random() < (0.45 if SH else 0.25):
            s["pointer"] = rng.choice(tr_numbers)
        surfaces.append(s)
    if "periodic" in F:
        planes = [s for s in surfaces if s["mnemonic"] in ("px", "py", "pz") and s["pointer"] is None and not s["modifier"]]
        if len(planes) >= 2 and rng.random() < (0.8 if SH else 0.4):
            a, b = planes[0], planes[1]
            b["mnemonic"] = a["mnemonic"]
            a["pointer"] = -b["number"]
            b["pointer"] = -a["number"]

    mat_numbers = fresh(nmat, 1, 60)
    materials = []
    for n in mat_numbers:
        zs = rng.sample(ZAIDS, rng.randint(1, 3))
        sign = -1 if rng.random() < 0.3 else 1
        comps = [[z, sign * rng.randint(1, 999) / 1000.0] for z in zs]
        mt = [rng.choice(LAWS)] if "thermal" in F and rng.random() < 0.35 else None
        materials.append({"number": n, "comps": comps, "mt": mt})

    cell_numbers = fresh(ncells, 1, 300)
    universes = fresh(rng.randint(1, 3) if SH else rng.randint(1, 2), 1, 50) if "universes" in F and ncells >= 3 and rng.random() < (0.9 if SH else 0.5) else []
    if SH and universes and tr_numbers and rng.random() < 0.7:
        # a universe that carries the number of a transform (TRn places universe n: a common habit)
        universes = sorted(set(universes[1:]) | {rng.choice(tr_numbers)})
    cells = []
    for i, n in enumerate(cell_numbers):
        comp = cell_numbers[:i] if "complements" in F else []
        g = gen_geom(rng, surf_numbers, comp, 0, rng.choice([1, 2, 2, 3]))
        if g[0] == "c":
            g = ["and", [g, ["s", rng.choice(surf_numbers), True]]]
        mat = rng.choice([0] + mat_numbers)
        dens = None
        if mat:
            dens = fnum(rng, positive=True, small=True)
            if rng.random() < 0.4:
                dens = -dens
        c = {"number": n, "mat": mat, "density": dens, "geom": g, "imp": {}, "vol": None, "u": None, "fill": None,
             "fill_tr": None, "lat": None, "trcl": None, "tmp": None, "dollar": None}
        for p in mode:
            c["imp"][p] = float(rng.choice([0, 1, 1, 1, 2, 4])) if rng.random() < 0.85 else fnum(rng, positive=True, small=True)
        if rng.random() < 0.4:
            c["vol"] = fnum(rng, positive=True)
        if "plain_params" in F and rng.random() < 0.25:
            c["tmp"] = rng.choice([2.53e-8, 2.5e-8, 3.1e-8, 5.17e-8])
        elif "plain_params" in F and rng.random() < 0.2:
            # parameters MontePy keeps in the tree only, several of them sharing a keyword with another particle
            # designator or number (seeded change C01c dropped every occurrence after the first on write)
            pools = [[("tmp1", "2.53e-8"), ("tmp2", "3.1e-8")], [("pd1", "0.5"), ("pd2", "1")], [("ext:n", "0.5")],
                     [("wwn1:n", "0.5"), ("wwn2:n", "0.25")], [("dxc1:n", "0.5"), ("dxc2:n", "1")]]
            if "p" in mode:
                pools += [[("fcl:n", "1"), ("fcl:p", "0.5")], [("ext:n", "0.5"), ("ext:p", "0.25")], [("elpt:n", "1e-3"), ("elpt:p", "1e-2")]]
            c["extra_params"] = rng.choice(pools)
        cells.append(c)
    if "shortcuts" in F and len(cells) >= 4 and rng.random() < 0.3:
        # importances that form a progression over the cells (written with I / ILOG / M shortcuts in the data block)
        p = rng.choice(mode)
        kind = rng.choice(["ar", "ge2", "ge10"])
        for k, c in enumerate(cells[:-1]):
            c["imp"][p] = float({"ar": k + 1, "ge2": 2 ** k, "ge10": 10 ** k}[kind])
        cells[-1]["imp"][p] = 0.0
    if len(mode) > 1 and rng.random() < 0.3:
        # all particles share their importances (so that one entry imp:n,p can give them)
        for c in cells:
            for p in mode:
                c["imp"][p] = c["imp"][mode[0]]
    if universes:
        # the last cells live in universes; earlier cells may be filled with them
        members = cells[len(cells) // 2:]
        for c in members:
            c["u"] = rng.choice(universes)
        used = sorted({c["u"] for c in members})
        for c in cells[: len(cells) // 2]:
            if rng.random() < (0.8 if SH else 0.5):
                c["fill"] = rng.choice(used)
                if tr_numbers and rng.random() < (0.7 if SH else 0.3):
                    c["fill_tr"] = rng.choice(tr_numbers)
                    if SH and c["fill"] in tr_numbers and rng.random() < 0.6:
                        c["fill_tr"] = c["fill"]  # fill=5 (5)
    if "lat_simple" in F:
        # (C09) lattice cells filled with ONE universe: lattice cells have FILL (well-formedness); hexahedral
        # geometry is MCNP's business, not the reader's
        for c in cells:
            if c["fill"] is not None and rng.random() < 0.6:
                c["lat"] = rng.choice([1, 1, 2])
    if "lattice" in F and universes:
        # a lattice cell filled with a matrix of universes: fill = [[imin,imax],[jmin,jmax],[kmin,kmax], [universe numbers]]
        used = sorted({c["u"] for c in cells if c["u"] is not None})
        for c in cells[: len(cells) // 2]:
            if rng.random() < 0.4:
                ni, nj = rng.choice([(2, 1), (1, 2), (2, 2), (3, 1)])
                i0, j0 = rng.choice([0, -1]), rng.choice([0, -1])
                c["lat"] = rng.choice([1, 2])
                c["fill"] = [[i0, i0 + ni - 1], [j0, j0 + nj - 1], [0, 0], [rng.choice(used) for _ in range(ni * nj)]]
                c["fill_tr"] = None
                if SH and tr_numbers and rng.random() < 0.6:
                    # a matrix fill with a transform; preferably one whose number is also a matrix entry
                    both = [t for t in tr_numbers if t in c["fill"][3]]
                    c["fill_tr"] = rng.choice(both or tr_numbers)
    if "trcl" in F and tr_numbers:
        for c in cells:
            if rng.random() < (0.35 if SH else 0.15):
                c["trcl"] = rng.choice(tr_numbers)
    placement = {k: "cell" for k in ("imp", "vol", "u", "lat", "fill")}
    if "data_placement" in F:
        for k in placement:
            if rng.random() < 0.35:
                placement[k] = "data"
        if any(c["fill_tr"] is not None or isinstance(c["fill"], list) for c in cells):
            placement["fill"] = "cell"  # a fill with a transform / a matrix fill cannot live in the data block (MontePy raises deliberately)
        if any(c["lat"] is not None for c in cells) and "lat_simple" not in F:
            placement["lat"] = "cell"  # (with "lat_simple", C09's own feature, LAT may be given in the data block)
    extra = [["nps", ["1000"]]]
    if rng.random() < 0.5:
        extra.append(["sdef", ["pos", "0", "0", "0", "erg", spell(rng, fnum(rng, positive=True, small=True), False)]])
    if rng.random() < 0.5:
        extra.append(["ksrc", [spell(rng, fnum(rng, small=True), False) for _ in range(3)]])
    if rng.random() < 0.5:
        t = rng.choice([4, 14, 24])
        extra.append([f"f{t}:n", [str(c) for c in rng.sample(cell_numbers, min(len(cell_numbers), rng.randint(1, 3)))]])
        if "shortcuts" in F and rng.random() < 0.7:
            extra.append([f"e{t}", ["1e-8", f"{rng.randint(1, 6)}i", "1e-6", "1", "10", f"{rng.randint(1, 3)}r", "20"]])
        if rng.random() < 0.5:
            # tally segment card: segmenting surfaces, then the options T (total) and/or C (cumulative)
            segs = [rng.choice(["-", ""]) + str(sn) for sn in rng.sample(surf_numbers, min(len(surf_numbers), rng.randint(1, 2)))]
            extra.append([f"fs{t}", segs + rng.choice([[], ["t"], ["c"], ["t", "c"], ["T", "C"]])])
        if rng.random() < 0.3:
            extra.append([f"sd{t}", [spell(rng, fnum(rng, positive=True, small=True), False) for _ in range(rng.randint(1, 3))]])
    if "shortcuts" in F and rng.random() < 0.3:
        extra.append(["phys:n", [rng.choice(["j", "2j"]), "20", "j"]])
    return {
        "message": ["message: outp=o.out", "  runtpe=r.run"] if "message" in F and rng.random() < 0.2 else None,
        # (the first line after the message block is the title whatever it looks like: also a line that would be a C
        # comment, a read card or a message start anywhere else — seeded change C01d)
        "title": rng.choice(["Generated problem", "test case 42 (verif)", "pin cell - variant", "a title with $ and & and c",
                             "c  bare sphere -- benchmark, rev. 3", "C TITLE THAT LOOKS LIKE A COMMENT", "  c indented comment-like title",
                             "c", "1 0 -1 imp:n=1 $ a title that looks like a cell",
                             # titles at and beyond the column limits (79, 80, 81, 127, 128, 129 characters)
                             ("title of seventy-nine characters " + "x" * 79)[:79], ("title of eighty characters " + "y" * 80)[:80],
                             ("title of eighty-one characters " + "z" * 81)[:81], ("t127 " + "a" * 127)[:127], ("t128 " + "b" * 128)[:128],
                             ("t129 " + "c" * 129)[:129]]),
        "mode": mode, "cells": cells, "surfaces": surfaces, "materials": materials, "transforms": transforms,
        "placement": placement, "extra_data": extra, "progressions": "progressions" in F, "shared_numbers": SH,
    }


# --------------------------------------------------------------------------- words
# I / ILOG / M shortcuts in generated per-cell vectors.  Off until the repair of C08-F3 lands (re-compression of a
# list that holds a multiply or interpolate shortcut is not idempotent: a genuine defect, recorded, being repaired);
# with it on, C19 reports that defect on the unchanged tree.
PROGRESSION_SHORTCUTS = True


def _compress(rng, vals, shortcuts, progressions=False):
    """words of a per-cell data vector (None = jump); optionally uses R and J shortcuts"""
    words = []
    i = 0
    while i < len(vals):
        v = vals[i]
        j = i
        while j + 1 < len(vals) and vals[j + 1] == v:
            j += 1
        run = j - i + 1
        if v is None:
            if shortcuts and run > 1 and rng.random() < 0.7:
                words.append(f"{run}j")
            else:
                words += ["j"] * run
        else:
            w = spell(rng, v, False) if isinstance(v, float) else str(v)
            # interpolation and multiplication shortcuts where the values happen to form a progression
            if PROGRESSION_SHORTCUTS and progressions and shortcuts and run == 1 and isinstance(v, (int, float)) and v > 0:
                k = i
                num = lambda x: isinstance(x, (int, float)) and not isinstance(x, bool)  # noqa: E731
                while k + 1 < len(vals) and num(vals[k + 1]):
                    k += 1
                seq = vals[i : k + 1]
                n_ar = n_ge = 1
                while n_ar < len(seq) - 1 and abs((seq[n_ar + 1] - seq[n_ar]) - (seq[1] - seq[0])) < 1e-12 * max(1, abs(seq[1])):
                    n_ar += 1
                if all(x > 0 for x in seq[:2]) and len(seq) > 1:
                    while n_ge < len(seq) - 1 and seq[n_ge + 1] > 0 and abs(seq[n_ge + 1] / seq[n_ge] - seq[1] / seq[0]) < 1e-12:
                        n_ge += 1
                r = rng.random()
                sp = lambda x: spell(rng, float(x), False) if isinstance(v, float) else str(x)  # noqa: E731
                if len(seq) >= 3 and n_ar >= 2 and seq[1] != seq[0] and r < 0.5:
                    words += [w, f"{n_ar - 1}i" if n_ar > 2 or rng.random() < 0.5 else "i", sp(seq[n_ar])]
                    i += n_ar + 1
                    continue
                if len(seq) >= 3 and n_ge >= 2 and seq[1] != seq[0] and r < 0.8:
                    words += [w, f"{n_ge - 1}ilog", sp(seq[n_ge])]
                    i += n_ge + 1
                    continue
                if len(seq) >= 2 and seq[0] != 0 and seq[1] / seq[0] in (2, 3, 4, 5, 10) and r < 0.9:
                    words += [w, f"{int(seq[1] / seq[0])}m"]
                    i += 2
                    continue
            if shortcuts and run > 2 and rng.random() < 0.7:
                words += [w, f"{run - 1}r"]
            else:
                words += [w] * run
        i = j + 1
    while words and words[-1].endswith("j") and rng.random() < 0.5:
        words.pop()  # trailing defaults may be omitted
    return words


def cards(gp, rng, redundant=0.15, shortcuts=True):
    """-> dict with word lists per card: {"cells":[(words, dollar)], "surfaces":[...], "data":[...]}"""
    place = gp["placement"]
    out = {"cells": [], "surfaces": [], "data": []}
    for c in gp["cells"]:
        w = [str(c["number"]), str(c["mat"])]
        if c["mat"]:
            w.append(spell(rng, c["density"]))
        w += render_geom(c["geom"], rng, 0, redundant)
        params = []
        if place["imp"] == "cell":
            byval = {}
            for p, v in c["imp"].items():
                byval.setdefault(v, []).append(p)
            share = gp.get("imp_share")  # (C09) None: as before | "always": one entry per group of equal particles | "never"
            if share == "always":
                for v, ps in byval.items():
                    params.append(("imp:" + ",".join(ps), [spell(rng, v, False)]))
            elif share == "never":
                for p, v in c["imp"].items():
                    params.append((f"imp:{p}", [spell(rng, v, False)]))
            elif len(byval) == 1 and rng.random() < 0.7:
                params.append(("imp:" + ",".join(c["imp"].keys()), [spell(rng, list(byval)[0], False)]))
            else:
                for p, v in c["imp"].items():
                    params.append((f"imp:{p}", [spell(rng, v, False)]))
        if place["vol"] == "cell" and c["vol"] is not None:
            params.append(("vol", [spell(rng, c["vol"], False)]))
        if place["u"] == "cell" and c["u"] is not None:
            params.append(("u", [str(c["u"])]))
        if c.get("lat") is not None and place["lat"] == "cell":
            params.append(("lat", [str(c["lat"])]))
        if place["fill"] == "cell" and isinstance(c["fill"], list):
            v = [f"{a}:{b}" for a, b in c["fill"][:3]] + [str(u) for u in c["fill"][3]]
            if c["fill_tr"] is not None:
                v += ["(" + str(c["fill_tr"]) + ")"]
            params.append(("fill", v))
        elif place["fill"] == "cell" and c["fill"] is not None:
            v = [str(c["fill"])]
            if c["fill_tr"] is not None and gp.get("shared_numbers") and rng.random() < 0.3:
                v += ["(", str(c["fill_tr"]), ")"]  # blanks inside the parentheses: fill=5 ( 5 )
            elif c["fill_tr"] is not None:
                v += ["(" + str(c["fill_tr"]) + ")"]
            params.append(("fill", v))
        if c["trcl"] is not None:
            params.append(("trcl", [str(c["trcl"])]))
        for k, v in c.get("extra_params") or []:
            params.append((k, [v]))
        if c.get("tmp") is not None:
            # a parameter MontePy keeps in the tree only (no modifier object): when it stands last, a modifier
            # that starts printing after an edit is written directly behind it (seeded change C07b)
            params.append(("tmp", [spell(rng, c["tmp"], False)]))
        rng.shuffle(params)
        out["cells"].append({"words": w, "params": params, "dollar": c.get("dollar")})
    for s in gp["surfaces"]:
        w = [s["modifier"] + str(s["number"])]
        if s["pointer"] is not None:
            w.append(str(s["pointer"]))
        w.append(s["mnemonic"])
        w += [spell(rng, x) for x in s["constants"]]
        out["surfaces"].append({"words": w, "params": [], "dollar": None})
    d = out["data"]
    for m in gp["materials"]:
        w = [f"m{m['number']}"]
        for z, f in m["comps"]:
            w += [z, spell(rng, f, False)]
        d.append({"words": w, "params": [], "dollar": None})
        if m["mt"]:
            d.append({"words": [f"mt{m['number']}"] + m["mt"], "params": [], "dollar": None})
    for t in gp["transforms"]:
        d.append({"words": [("*" if t["star"] else "") + f"tr{t['number']}"] + [spell(rng, x, False) for x in t["vals"]], "params": [], "dollar": None})
    d.append({"words": ["mode"] + gp["mode"], "params": [], "dollar": None})
    cs = gp["cells"]
    vectors = [[c["imp"][p] for c in cs] for p in gp["mode"]]
    if place["imp"] == "data" and gp.get("imp_share") == "always" and len(gp["mode"]) > 1:
        # (C09) one input per group of particles with equal vectors: imp:n,p 1 1 0 / imp:e 2 2 0
        groups = {}
        for p, v in zip(gp["mode"], vectors):
            groups.setdefault(tuple(v), []).append(p)
        for v, ps in groups.items():
            d.append({"words": ["imp:" + ",".join(ps)] + [spell(rng, x, False) for x in v], "params": [], "dollar": None})
    elif place["imp"] == "data" and gp.get("imp_share") != "never" and len(gp["mode"]) > 1 and all(v == vectors[0] for v in vectors) and rng.random() < 0.75:
        # one input for all particles: imp:n,p 1 1 0
        d.append({"words": ["imp:" + ",".join(gp["mode"])] + [spell(rng, x, False) for x in vectors[0]], "params": [], "dollar": None})
    elif place["imp"] == "data":
        for p in gp["mode"]:
            d.append({"words": [f"imp:{p}"] + _compress(rng, [c["imp"][p] for c in cs], shortcuts, gp.get("progressions", False))[: len(cs)] or [f"imp:{p}"], "params": [], "dollar": None})
            if len(d[-1]["words"]) == 1:
                d[-1]["words"] += [spell(rng, c["imp"][p], False) for c in cs]
    if place["vol"] == "data" and any(c["vol"] is not None for c in cs):
        d.append({"words": ["vol"] + _compress(rng, [c["vol"] for c in cs], shortcuts), "params": [], "dollar": None})
    if place["u"] == "data" and any(c["u"] is not None for c in cs):
        d.append({"words": ["u"] + _compress(rng, [c["u"] for c in cs], shortcuts), "params": [], "dollar": None})
    if place["lat"] == "data" and any(c.get("lat") is not None for c in cs):
        d.append({"words": ["lat"] + _compress(rng, [c.get("lat") for c in cs], shortcuts), "params": [], "dollar": None})
    if place["fill"] == "data" and any(c["fill"] is not None for c in cs):
        d.append({"words": ["fill"] + _compress(rng, [c["fill"] for c in cs], shortcuts), "params": [], "dollar": None})
    for name, entries in gp["extra_data"]:
        d.append({"words": [name] + list(entries), "params": [], "dollar": None})
    return out


# --------------------------------------------------------------------------- layouts
def _case(rng, w, p):
    if rng is None or p <= 0 or rng.random() > p:
        return w
    return w.upper() if rng.random() < 0.6 else w.title()


def layout_card(rng, card, limit, style):
    """lines of one card. style: "plain" (single blanks, wrap with 5-blank continuation) or "random" (section 5.3)."""
    words = list(card["words"])
    for k, vals in card["params"]:
        if style == "random":
            sep = rng.choice(["=", " ", " = ", "= "])
            words.append(_case(rng, k, 0.3) + sep + vals[0])
            words += vals[1:]
        else:
            words.append(k + "=" + vals[0])
            words += vals[1:]
    width = limit - 2
    lines = []
    cur = ""
    if style == "random" and rng.random() < 0.15:
        cur = " " * rng.randint(1, 4)
    first = True
    glue_next = False
    for i, w in enumerate(words):
        w2 = _case(rng, w, 0.15) if style == "random" else w
        if first:
            cur += w2
            first = False
            continue
        tight = w in (")", ":") or words[i - 1] in ("(", ":", "#")
        if style == "random":
            r = rng.random()
            gap = "" if (tight and r < 0.6) else " " * (1 if r < 0.75 else rng.randint(2, 6))
            if words[i - 1] == "#":
                gap = ""  # `#` is written directly before its operand
            brk = rng.random() < 0.10 and words[i - 1] != "#"
        else:
            gap = "" if (w == ")" or words[i - 1] in ("(", "#")) else " "
            brk = False
        # `#` and its operand are one unit of G (no gap, hence no line break, between them): room for the operand is
        # reserved when the `#` is placed
        need = len(w2) + (len(words[i + 1]) if w == "#" and i + 1 < len(words) else 0)
        if words[i - 1] != "#" and (brk or len(cur) + len(gap) + need > width):
            if style == "random":
                r = rng.random()
                if r < 0.25 and len(cur) + 2 <= width:
                    lines.append(cur + " &")
                    # continuation after `&`: kept indented here (data in columns 1-5 after `&` is legal MCNP,
                    # but it is C11's own generator that explores it)
                    cur = " " * rng.randint(5, 8) + w2
                    continue
                if r < 0.45 and len(cur) + 12 <= width:
                    lines.append(cur + " $ " + rng.choice(COMMENTS)[: width - len(cur) - 3])
                elif r < 0.55:
                    lines.append(cur)
                    lines.append(rng.choice(["c ", "C ", " c ", "   C "]) + rng.choice(COMMENTS))
                else:
                    lines.append(cur)
                cur = " " * rng.randint(5, 10) + w2
            else:
                lines.append(cur)
                cur = "     " + w2
        else:
            cur += (gap if gap or tight else " ") + w2
    if card.get("dollar"):
        cur += " $ " + card["dollar"]
    lines.append(cur)
    # no `#` within columns 1-5 of a data line (MCNP's vertical-format marker): push it right
    fixed = []
    for k, l in enumerate(lines):
        if "#" in l[:5] and not (l.lstrip()[:2].lower() in ("c ", "c") and len(l) - len(l.lstrip()) < 5):
            i = l.index("#")
            l = l[:i] + " " * (5 - i) + l[i:]
        fixed.append(l)
    return fixed


def render(gp, rng, limit=128, style="plain", redundant=0.15, shortcuts=True, crlf=False, final_blank=True):
    cs = cards(gp, rng, redundant, shortcuts)
    lines = []
    if gp["message"]:
        lines += gp["message"] + [""]
    lines.append(gp["title"])
    for bi, blk in enumerate(("cells", "surfaces", "data")):
        if style == "random" and rng.random() < 0.5:
            lines.append("c " + blk + " block")
        for card in cs[blk]:
            if style == "random" and rng.random() < 0.15:
                lines.append(rng.choice(["c ", "C "]) + rng.choice(COMMENTS))
            lines += layout_card(rng, card, limit, style)
        if bi < 2 or final_blank:
            lines.append("")
    if style == "random":
        # trailing blanks (not after `&`: MontePy's reader had a defect there, explored by C11)
        lines = [l + (" " * rng.randint(1, 3) if l and not l.endswith("&") and rng.random() < 0.05 and len(l) + 3 < limit else "") for l in lines]
    return ("\r\n" if crlf else "\n").join(lines) + ("\r\n" if crlf else "\n")
