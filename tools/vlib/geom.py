"""C02 helpers: geometry ASTs, rendering, serialising live MontePy trees, running cases on the real code.

A geometry AST (JSON-able):
  {"e":"s","n":3,"sign":""|"+"|"-"}   surface half-space (sign "" and "+" are the positive side)
  {"e":"c","n":91}                     complement of cell 91  (~cell / "#91")
  {"e":"and","a":A,"b":B} {"e":"or","a":A,"b":B} {"e":"not","a":A}
  {"e":"par","a":A}                    redundant parentheses (text only; no meaning, not a Python operator)
"""

import re

ALPHABET = set("0123456789+-#(): \n&$")
SURFACES = list(range(1, 10))
CELLS = [91, 92, 93]
C_COMMENT = re.compile(r"^ {0,4}[cC]( |$)")


# ----------------------------------------------------------------------------------- AST semantics
def leaves(a, acc=None):
    acc = [] if acc is None else acc
    if a["e"] == "s":
        if (False, a["n"]) not in acc:
            acc.append((False, a["n"]))
    elif a["e"] == "c":
        if (True, a["n"]) not in acc:
            acc.append((True, a["n"]))
    else:
        leaves(a["a"], acc)
        if "b" in a:
            leaves(a["b"], acc)
    return acc


def nleaves(a):
    if a["e"] in ("s", "c"):
        return 1
    return nleaves(a["a"]) + (nleaves(a["b"]) if "b" in a else 0)


def ast_eval(a, env):
    e = a["e"]
    if e == "s":
        return env[(False, a["n"])] != (a["sign"] == "-")
    if e == "c":
        return not env[(True, a["n"])]
    if e == "and":
        return ast_eval(a["a"], env) and ast_eval(a["b"], env)
    if e == "or":
        return ast_eval(a["a"], env) or ast_eval(a["b"], env)
    if e == "not":
        return not ast_eval(a["a"], env)
    if e == "par":
        return ast_eval(a["a"], env)
    raise AssertionError(e)


def envs(vs):
    """row k: variable j has the value of bit j of k (the convention of Spec.Geometry.envOf)."""
    for k in range(2 ** len(vs)):
        yield {v: bool((k >> j) & 1) for j, v in enumerate(vs)}


def table(fn, vs):
    return "".join("1" if fn(env) else "0" for env in envs(vs))


def ast_table(a, vs):
    vm, full = var_masks(vs)
    return mask_str(ast_mask(a, vm, full), vs)


def strip_par(a):
    """the AST as the Python operators build it (no 'par', sign "+" kept as positive)"""
    if a["e"] == "par":
        return strip_par(a["a"])
    if a["e"] in ("s", "c"):
        return dict(a)
    r = {"e": a["e"], "a": strip_par(a["a"])}
    if "b" in a:
        r["b"] = strip_par(a["b"])
    return r


def model_expr(a):
    a = strip_par(a)
    if a["e"] == "s":
        return {"e": "s", "n": a["n"], "pos": a["sign"] != "-"}
    if a["e"] == "c":
        return {"e": "c", "n": a["n"]}
    r = {"e": a["e"], "a": model_expr(a["a"])}
    if "b" in a:
        r["b"] = model_expr(a["b"])
    return r


# ----------------------------------------------------------------------------------- rendering to MCNP text
TRAIL = ["", "", "", " ", "  ", " $ end note", "\nc last line", " $ end  "]
GAPS = [" ", " ", " ", "  ", "\n     ", "\n        ", " $ a note\n     ", "\nc a line\n     ", " &\n     ", " $ x ( : # 5\n      "]
TIGHT = ["", "", " ", "\n     ", " $ t\n     "]


def prec(a):
    return {"or": 0, "and": 1}.get(a["e"], 2)


def render(a, rng, level=0, plain=False):
    """MCNP text of the AST with the parentheses precedence needs (plus the explicit 'par' nodes) and,
    unless `plain`, random padding, comments and line breaks between tokens."""

    def gap():
        return " " if plain else rng.choice(GAPS)

    def tight():
        return "" if plain else rng.choice(TIGHT)

    e = a["e"]
    if e == "s":
        return a["sign"] + str(a["n"])
    if e == "c":
        return "#" + str(a["n"])
    if e == "par":
        return "(" + tight() + render(a["a"], rng, 0, plain) + tight() + ")"
    if e == "not":
        return "#(" + tight() + render(a["a"], rng, 0, plain) + tight() + ")"
    if e == "or":
        s = render(a["a"], rng, 0, plain) + tight() + ":" + tight() + render(a["b"], rng, 0, plain)
    else:
        left = render(a["a"], rng, 1, plain)
        right = render(a["b"], rng, 1, plain)
        g = gap()
        # "(1)(2)", "1(2)", "(1)2" need no blank; MontePy's parser wants one in front of "#"
        if not plain and (left.endswith(")") or right.startswith("(")) and not right.startswith("#") and rng.random() < 0.3:
            g = ""
        s = left + g + right
    if prec(a) < level:
        s = "(" + s + ")"
    return s


# ----------------------------------------------------------------------------------- text abstraction
def abstract(text, stop_at_parameters=True):
    """Map real text to the alphabet of the Spec: a `$` comment or a `c` comment line becomes "$"
    (up to, not including, its line end). Stops where the cell parameters start."""
    out = []
    lines = text.split("\n")
    for li, line in enumerate(lines):
        if li > 0:
            out.append("\n")
        if C_COMMENT.match(line) and li > 0:
            out.append("$")
            continue
        for ch in line:
            if ch == "$":
                out.append("$")
                break
            if ch in ALPHABET:
                out.append(ch)
            elif ch == "\t":
                out.append(" ")
            elif stop_at_parameters:
                return "".join(out)
            else:
                raise ValueError(f"character {ch!r} outside the geometry alphabet")
    return "".join(out)


# ----------------------------------------------------------------------------------- serialising live trees
class Ids:
    def __init__(self):
        self.map = {}
        self.keep = []

    def of(self, obj):
        if id(obj) not in self.map:
            self.map[id(obj)] = len(self.map) + 1
            self.keep.append(obj)
        return self.map[id(obj)]


def ser_pad(pad):
    from montepy.input_parser import syntax_node as sn

    items = []
    for n in pad.nodes:
        if isinstance(n, sn.CommentNode):
            items.append({"c": len(n.format())})
        else:
            if not set(n) <= ALPHABET - {"$"}:
                raise ValueError(f"padding {n!r} outside the geometry alphabet")
            items.append(n)
    return items


KEYMAP = {"left": "left", "operator": "operator", "right": "right", "end_pad": "end_pad"}


def ser_tree(node, ids):
    """JSON of a live GeometryTree / ValueNode as the parser built it."""
    from montepy.input_parser import syntax_node as sn
    from montepy.geometry_operators import Operator

    if isinstance(node, sn.ValueNode):
        tok = str(node.token)
        if not set(tok) <= set("0123456789+-"):
            raise ValueError(f"token {tok!r}")
        # value / is_negative as MontePy computed them from the token (HalfSpace.parse_input_node has run)
        return {
            "t": "val",
            "id": ids.of(node),
            "tok": tok,
            "pad": ser_pad(node.padding) if node.padding is not None else None,
            "value": int(node.value),
            "neg": bool(node.is_negative),
        }
    assert isinstance(node, sn.GeometryTree), type(node)
    keys = list(node.nodes.keys())
    op = node.operator
    if op == Operator._SHIFT:
        if keys not in (["left"], ["start_pad", "left", "end_pad"]):
            raise ValueError(f"shift node with keys {keys}")
        return {
            "t": "shift",
            "id": ids.of(node),
            "sp": ser_pad(node.nodes["start_pad"]) if "start_pad" in node.nodes else None,
            "ep": ser_pad(node.nodes["end_pad"]) if "end_pad" in node.nodes else None,
            "left": ser_tree(node.nodes["left"], ids),
        }
    for k in keys:
        if k not in KEYMAP:
            raise ValueError(f"operator node with key {k}")
    d = {
        "id": ids.of(node),
        "order": [KEYMAP[k] for k in keys],
        "opr": ser_pad(node.nodes["operator"]),
        "ep": ser_pad(node.nodes["end_pad"]) if "end_pad" in node.nodes else None,
        "left": ser_tree(node.nodes["left"], ids),
    }
    if op == Operator.COMPLEMENT:
        d["t"] = "compl"
    else:
        d["t"] = "bin"
        d["o"] = "inter" if op == Operator.INTERSECTION else "union"
        d["right"] = ser_tree(node.nodes["right"], ids)
    return d


# ----------------------------------------------------------------------------------- the real code
_MASKS = {}


def var_masks(vs):
    """bit k of mask j is set iff variable j is true in row k (row k: variable j = bit j of k)"""
    key = len(vs)
    if key not in _MASKS:
        n = 2 ** key
        ms = []
        for j in range(key):
            m = 0
            for k in range(n):
                if (k >> j) & 1:
                    m |= 1 << k
            ms.append(m)
        _MASKS[key] = (ms, (1 << n) - 1)
    ms, full = _MASKS[key]
    return {v: ms[j] for j, v in enumerate(vs)}, full


def mask_str(m, vs):
    n = 2 ** len(vs)
    return format(m, f"0{n}b")[::-1]


def str_mask(t):
    return int(t[::-1], 2) if t else 0


def hs_mask(h, vm, full, subst=None):
    """truth table of the live HalfSpace objects as a bit mask; `subst = (object, mask)`"""
    from montepy.surfaces.half_space import UnitHalfSpace
    from montepy.geometry_operators import Operator

    if subst is not None and h is subst[0]:
        return subst[1]
    if isinstance(h, UnitHalfSpace):
        n = h.divider if isinstance(h.divider, int) else h.divider.number
        if h.is_cell:
            return vm[(True, n)]
        return vm[(False, n)] if h.side else full & ~vm[(False, n)]
    if h.operator == Operator.COMPLEMENT:
        return full & ~hs_mask(h.left, vm, full, subst)
    if h.operator == Operator.INTERSECTION:
        return hs_mask(h.left, vm, full, subst) & hs_mask(h.right, vm, full, subst)
    if h.operator == Operator.UNION:
        return hs_mask(h.left, vm, full, subst) | hs_mask(h.right, vm, full, subst)
    raise AssertionError(h.operator)


def hs_table(h, vs, subst=None):
    vm, full = var_masks(vs)
    return mask_str(hs_mask(h, vm, full, subst), vs)


def ast_mask(a, vm, full):
    e = a["e"]
    if e == "s":
        m = vm[(False, a["n"])]
        return full & ~m if a["sign"] == "-" else m
    if e == "c":
        return full & ~vm[(True, a["n"])]
    if e == "and":
        return ast_mask(a["a"], vm, full) & ast_mask(a["b"], vm, full)
    if e == "or":
        return ast_mask(a["a"], vm, full) | ast_mask(a["b"], vm, full)
    if e == "not":
        return full & ~ast_mask(a["a"], vm, full)
    if e == "par":
        return ast_mask(a["a"], vm, full)
    raise AssertionError(e)


def _land(a, b):
    return "".join("1" if x == "1" and y == "1" else "0" for x, y in zip(a, b))


def _lor(a, b):
    return "".join("1" if x == "1" or y == "1" else "0" for x, y in zip(a, b))


def _lnot(a):
    return "".join("0" if x == "1" else "1" for x in a)


def tree_nodes(g, binary_only=False, path=""):
    """(path, object) of the HalfSpaces of a live tree in preorder; the cell leaf of a `#n` is not addressed."""
    from montepy.surfaces.half_space import UnitHalfSpace
    from montepy.geometry_operators import Operator

    out = []
    if isinstance(g, UnitHalfSpace):
        if not binary_only and not g.is_cell:
            out.append((path, g))
        return out
    if not binary_only or g.operator != Operator.COMPLEMENT:
        out.append((path, g))
    out += tree_nodes(g.left, binary_only, path + "l")
    if g.right is not None:
        out += tree_nodes(g.right, binary_only, path + "r")
    return out


def tree_nodes_all(g, path=""):
    """every HalfSpace of a live tree (also the cell leaves) in preorder"""
    from montepy.surfaces.half_space import UnitHalfSpace

    out = [(path, g)]
    if not isinstance(g, UnitHalfSpace):
        out += tree_nodes_all(g.left, path + "l")
        if g.right is not None:
            out += tree_nodes_all(g.right, path + "r")
    return out


def node_at(g, path):
    for d in path:
        g = g.left if d == "l" else g.right
    return g


def hs_eval(h, env, subst=None):
    """Boolean function of the live HalfSpace objects (the object the API exposes).
    `subst = (object, value)`: that object (by identity) has the given value."""
    from montepy.surfaces.half_space import UnitHalfSpace
    from montepy.geometry_operators import Operator

    if subst is not None and h is subst[0]:
        return subst[1]
    if isinstance(h, UnitHalfSpace):
        n = h.divider if isinstance(h.divider, int) else h.divider.number
        if h.is_cell:
            return env[(True, n)]
        return env[(False, n)] == h.side
    if h.operator == Operator.COMPLEMENT:
        return not hs_eval(h.left, env, subst)
    if h.operator == Operator.INTERSECTION:
        return hs_eval(h.left, env, subst) and hs_eval(h.right, env, subst)
    if h.operator == Operator.UNION:
        return hs_eval(h.left, env, subst) or hs_eval(h.right, env, subst)
    raise AssertionError(h.operator)


def hs_leaves(h, acc):
    from montepy.surfaces.half_space import UnitHalfSpace

    if isinstance(h, UnitHalfSpace):
        n = h.divider if isinstance(h.divider, int) else h.divider.number
        acc.add((bool(h.is_cell), n))
        return acc
    hs_leaves(h.left, acc)
    if h.right is not None:
        hs_leaves(h.right, acc)
    return acc


_TEMPLATE = None


def fresh_problem(cell_text=None):
    """A problem with surfaces 1..9, cells 91..93 and (optionally) cell 1 with the given text, linked."""
    import copy
    from vlib import mp

    global _TEMPLATE
    montepy = mp.montepy
    if _TEMPLATE is None:
        prob = montepy.MCNP_Problem("verif-c02")
        for n in SURFACES:
            prob.surfaces.append(mp.surface_from(f"{n} PZ {n}.5"))
        for n in CELLS:
            prob.cells.append(mp.cell_from(f"{n} 0 -1"))
        _TEMPLATE = prob
    prob = copy.deepcopy(_TEMPLATE)
    cell = None
    if cell_text is not None:
        cell = mp.cell_from(cell_text)
        prob.cells.append(cell)
    for c in prob.cells:
        c.link_to_problem(prob)
        c.update_pointers(prob.cells, prob.materials, prob.surfaces)
    return prob, cell


def build(a, prob):
    """A HalfSpace from scratch with the Python operators."""
    e = a["e"]
    if e == "s":
        s = prob.surfaces[a["n"]]
        return -s if a["sign"] == "-" else +s
    if e == "c":
        return ~prob.cells[a["n"]]
    if e == "par":
        return build(a["a"], prob)
    if e == "not":
        return ~build(a["a"], prob)
    if e == "and":
        return build(a["a"], prob) & build(a["b"], prob)
    if e == "or":
        return build(a["a"], prob) | build(a["b"], prob)
    raise AssertionError(e)


def geometry_text(lines, number):
    text = "\n".join(lines)
    prefix = f"{number} 0 "
    if not text.startswith(prefix):
        raise ValueError(f"unexpected start of cell text {text[:20]!r}")
    return abstract(text[len(prefix) :])


def run_impl(case):
    """Run one case on the real code. Returns the observations; never raises for a MontePy error."""
    import warnings

    warnings.filterwarnings("ignore")
    from vlib import mp

    montepy = mp.montepy
    res = {"steps": []}
    try:
        ids = Ids()
        res["ctr"] = 1000000  # fresh node ids of the model start above every serialised id
        if case["origin"] == "parsed":
            try:
                prob, cell = fresh_problem("1 0 " + case["text"])
            except (montepy.errors.ParsingError, montepy.errors.MalformedInputError) as e:
                return {"rejected": type(e).__name__}
            tree = ser_tree(cell._tree["geometry"], ids)
            res["tree"] = tree
            res["tree_text"] = abstract(cell._tree["geometry"].format(), stop_at_parameters=False)
        else:
            prob, _ = fresh_problem()
            cell = montepy.Cell()
            cell.number = 1
            cell.geometry = build(case["init"], prob)
            prob.cells.append(cell)
        res["init_str"] = str(cell.geometry)
        vs = [tuple(v) for v in case["vars"]]
        res["init_table"] = hs_table(cell.geometry, vs) if hs_leaves(cell.geometry, set()) <= set(vs) else None
        for op in case["ops"]:
            k = op["k"]
            st = {}
            if k == "write":
                lines = cell.format_for_mcnp_input((6, 2, 0))
                # what Cell.format_for_mcnp_input hands to wrap_string_for_mcnp (the tree was just updated by it)
                unwrapped = abstract(cell._tree["geometry"].format(), stop_at_parameters=False)
                wrapped = len("\n".join(lines).split("\n")) != len((f"1 0 " + cell._tree["geometry"].format()).split("\n"))
                if wrapped:
                    # a line reached the column limit and was re-broken: line wrapping is property C10's
                    # (its known defect: a "$" comment is spilled onto a data line); C02 judges the text before wrapping
                    st["wrapped"] = True
                    st["text"] = unwrapped
                else:
                    st["text"] = geometry_text(lines, 1)
            else:
                if k in ("setdiv", "setside"):
                    # leaf edits (UnitHalfSpace.divider / .side setters): judged by the oracle only — the model does
                    # not cover ValueNode.format of an edited value (properties C04/C05)
                    from montepy.surfaces.half_space import UnitHalfSpace

                    leaves_ = [(p_, o_) for p_, o_ in tree_nodes_all(cell.geometry) if isinstance(o_, UnitHalfSpace)
                               and not (k == "setside" and o_.is_cell)]
                    if not leaves_:
                        st["noop"] = True
                    else:
                        path, leaf = leaves_[op.get("sel", 0) % len(leaves_)]
                        st["path"] = path
                        st["leaf_edit"] = True
                        vm, full = var_masks(vs)
                        if k == "setside":
                            t_new = mask_str(full & ~hs_mask(leaf, vm, full), vs)
                        elif leaf.is_cell:
                            t_new = mask_str(vm[(True, op["nc"])], vs)
                        else:
                            m = vm[(False, op["n"])]
                            t_new = mask_str(m if leaf.side else full & ~m, vs)
                        st["expect"] = hs_table(cell.geometry, vs, (leaf, str_mask(t_new)))
                        if k == "setside":
                            leaf.side = not leaf.side
                        elif leaf.is_cell:
                            leaf.divider = prob.cells[op["nc"]]
                        else:
                            leaf.divider = prob.surfaces[op["n"]]
                    st["str"] = str(cell.geometry)
                    st["table"] = hs_table(cell.geometry, vs) if hs_leaves(cell.geometry, set()) <= set(vs) else None
                    res["steps"].append(st)
                    continue
                # the HalfSpace the edit addresses: preorder index `sel` among the nodes the edit can be applied to
                nodes = tree_nodes(cell.geometry, binary_only=(k == "setop"))
                if not nodes:
                    st["noop"] = True
                else:
                    path, sub = nodes[op.get("sel", 0) % len(nodes)]
                    st["path"] = path
                    t_sub = hs_table(sub, vs)
                    x = None
                    if k not in ("not", "setop"):
                        if "xt" in op:
                            # the operand is the geometry of another cell that was read
                            try:
                                other = mp.cell_from(f"{10 + len(res['steps'])} 0 " + op["xt"])
                            except (montepy.errors.ParsingError, montepy.errors.MalformedInputError) as e:
                                return {"rejected": type(e).__name__}
                            prob.cells.append(other)
                            other.link_to_problem(prob)
                            other.update_pointers(prob.cells, prob.materials, prob.surfaces)
                            st["xtree"] = ser_tree(other._tree["geometry"], ids)
                            x = other.geometry
                        else:
                            x = build(op["x"], prob)
                        t_x = hs_table(x, vs)
                    # what the edit means at that node, from the operands' tables ...
                    if k == "not":
                        t_new = _lnot(t_sub)
                    elif k == "setop":
                        tl = hs_table(sub.left, vs)
                        tr = hs_table(sub.right, vs)
                        t_new = _land(tl, tr) if op["o"] == "inter" else _lor(tl, tr)
                    elif k in ("and", "rand", "iand"):
                        t_new = _land(t_sub, t_x)
                    elif k in ("or", "ror", "ior"):
                        t_new = _lor(t_sub, t_x)
                    elif k == "replace":
                        t_new = t_x
                    else:
                        raise AssertionError(k)
                    # ... and for the whole geometry: everything outside the addressed node is unchanged
                    root = cell.geometry
                    st["expect"] = hs_table(root, vs, (sub, str_mask(t_new)))
                    from montepy.geometry_operators import Operator

                    if k == "setop":
                        sub.operator = Operator.INTERSECTION if op["o"] == "inter" else Operator.UNION
                    else:
                        if k == "not":
                            new = ~sub
                        elif k == "and":
                            new = sub & x
                        elif k == "rand":
                            new = x & sub
                        elif k == "or":
                            new = sub | x
                        elif k == "ror":
                            new = x | sub
                        elif k == "iand":
                            new = sub.__iand__(x)  # `where &= x` is: where = where.__iand__(x)
                        elif k == "ior":
                            new = sub.__ior__(x)
                        else:
                            new = x
                        if path == "":
                            cell.geometry = new
                        else:
                            parent = node_at(cell.geometry, path[:-1])
                            setattr(parent, "left" if path[-1] == "l" else "right", new)
            st["str"] = str(cell.geometry)
            lv = hs_leaves(cell.geometry, set())
            st["table"] = hs_table(cell.geometry, vs) if lv <= set(vs) else None
            res["steps"].append(st)
    except Exception as e:  # noqa: BLE001  an exception of the real code is an observation
        res["raised"] = f"{type(e).__name__}: {e}"[:300]
    return res


def expected_tables(case, impl=None):
    """The table the geometry must have at the start and after every step, from the operands' tables."""
    vs = [tuple(v) for v in case["vars"]]
    n = 2 ** len(vs)

    def land(a, b):
        return "".join("1" if x == "1" and y == "1" else "0" for x, y in zip(a, b))

    def lor(a, b):
        return "".join("1" if x == "1" or y == "1" else "0" for x, y in zip(a, b))

    def lnot(a):
        return "".join("0" if x == "1" else "1" for x in a)

    cur = ast_table(case["init"], vs)
    assert len(cur) == n
    out = [cur]
    for op in case["ops"]:
        k = op["k"]
        i = len(out) - 1
        st = impl["steps"][i] if impl is not None and i < len(impl.get("steps", [])) else None
        if k == "write" or (st is not None and st.get("noop")):
            pass
        elif st is not None and "expect" in st:
            # what the edit means at the addressed node (from the operands' tables, taken from the live operands just
            # before the edit), everything outside that node unchanged
            cur = st["expect"]
        elif k == "not":
            cur = lnot(cur)
        elif k in ("and", "rand", "iand", "or", "ror", "ior"):
            x = ast_table(op["x"], vs)
            cur = land(cur, x) if k in ("and", "rand", "iand") else lor(cur, x)
        out.append(cur)
    return out


# ----------------------------------------------------------------------------------- generators
def gen_leaf(rng, allow_cell=True):
    if allow_cell and rng.random() < 0.12:
        return {"e": "c", "n": rng.choice(CELLS)}
    return {"e": "s", "n": rng.choice(SURFACES), "sign": rng.choice(["", "", "-", "-", "+"])}


def gen_ast(rng, n, par=True, depth=0):
    """random AST with n leaves; redundant parentheses to depth 3 when `par`."""
    if n == 1:
        a = gen_leaf(rng)
    else:
        k = rng.randint(1, n - 1)
        a = {"e": rng.choice(["and", "and", "or"]), "a": gen_ast(rng, k, par, depth), "b": gen_ast(rng, n - k, par, depth)}
    if rng.random() < 0.12:
        a = {"e": "not", "a": a}
    if par:
        d = 0
        while rng.random() < 0.15 and d < 3:
            a = {"e": "par", "a": a}
            d += 1
    return a


def gen_ops(rng, maxlen=8):
    ops = []
    for _ in range(rng.randint(0, maxlen)):
        r = rng.random()
        if r < 0.04:
            ops.append({"k": "setop", "o": rng.choice(["inter", "union"])})
        elif r < 0.07:
            if rng.random() < 0.5:
                ops.append({"k": "setside"})
            else:
                ops.append({"k": "setdiv", "n": rng.choice(SURFACES), "nc": rng.choice(CELLS)})
        elif r < 0.12:
            ops.append({"k": "not"})
        elif r < 0.30:
            ops.append({"k": "write"})
        else:
            k = rng.choice(["and", "or", "rand", "ror", "iand", "iand", "ior", "ior", "replace"])
            op = {"k": k, "x": gen_ast(rng, rng.choice([1, 1, 1, 2, 2, 3]), par=False)}
            if rng.random() < 0.2:
                # operand = geometry of another cell that was read (keeps its padding and comments)
                op["x"] = gen_ast(rng, rng.choice([1, 2, 2, 3]), par=True)
                op["xt"] = render(op["x"], rng) + rng.choice(TRAIL)
            ops.append(op)
    # 45 % of the edits address an inner HalfSpace (selector -> preorder index in the live tree at that moment)
    for op in ops:
        if op["k"] != "write" and (rng.random() < 0.45 or op["k"] in ("setside", "setdiv")):
            op["sel"] = rng.randrange(0, 64)
    ops.append({"k": "write"})
    return ops


def plain_asts(n):
    """all ASTs with n leaves over {and, or}, no complement, no redundant parentheses (leaf i = surface i+1)"""
    import itertools

    for shape in shapes(n):
        inner = []

        def collect(s, path):
            if s != "L":
                inner.append(path)
                collect(s[0], path + "l")
                collect(s[1], path + "r")

        collect(shape, "")
        for ops in itertools.product(["and", "or"], repeat=len(inner)):
            opmap = dict(zip(inner, ops))
            counter = [0]

            def mk(s, path):
                if s == "L":
                    counter[0] += 1
                    return {"e": "s", "n": counter[0], "sign": "-" if counter[0] % 2 == 0 else ""}
                return {"e": opmap[path], "a": mk(s[0], path + "l"), "b": mk(s[1], path + "r")}

            yield mk(shape, ""), len(inner)


def gen_write_edit_write(max_leaves, full_upto):
    """write; edit the HalfSpace at every address; write — for every small tree, from scratch and parsed."""
    nine = {"e": "s", "n": 9, "sign": ""}
    for n in range(2, max_leaves + 1):
        for a, nbin in plain_asts(n):
            for origin in ("parsed", "scratch"):
                for j in range(nbin):
                    for o in ("inter", "union"):
                        yield origin, a, [{"k": "write"}, {"k": "setop", "o": o, "sel": j}, {"k": "write"}]
                        if n <= full_upto:
                            yield origin, a, [{"k": "setop", "o": o, "sel": j}, {"k": "write"}]
                if n <= full_upto:
                    for j in range(2 * n - 1):
                        for k in ("ior", "iand", "not", "replace"):
                            e = {"k": k, "sel": j}
                            if k != "not":
                                e["x"] = {"e": "or", "a": nine, "b": {"e": "s", "n": 8, "sign": "-"}} if k == "replace" else nine
                            yield origin, a, [{"k": "write"}, e, {"k": "write"}]
                    for j in range(n):
                        yield origin, a, [{"k": "write"}, {"k": "setside", "sel": j}, {"k": "write"}]
                        yield origin, a, [{"k": "write"}, {"k": "setdiv", "n": 9, "nc": 91, "sel": j}, {"k": "write"}]


def make_case(origin, init, ops, rng=None, plain=False):
    case = {"origin": origin, "init": init, "ops": ops}
    vs = leaves(init)
    for op in ops:
        if "x" in op:
            leaves(op["x"], vs)
        if op["k"] == "setdiv":
            for v in ((False, op["n"]), (True, op["nc"])):
                if v not in vs:
                    vs.append(v)
    case["vars"] = [list(v) for v in sorted(vs)]
    if origin == "parsed":
        case["text"] = render(init, rng, 0, plain) + ("" if plain else rng.choice(TRAIL))
    return case


def shapes(n):
    """all binary tree shapes with n leaves: 'L' or (left, right)"""
    if n == 1:
        yield "L"
        return
    for k in range(1, n):
        for l in shapes(k):
            for r in shapes(n - k):
                yield (l, r)


def enum_asts(n, max_not=None, max_par=None):
    """all ASTs with n leaves over {and, or} x optional complement x optional redundant parentheses at every
    node (leaf i is surface i+1, negative for odd i; a complemented leaf is also tried as a cell complement)."""
    import itertools

    for shape in shapes(n):
        nodes = []

        def collect(s, path):
            nodes.append(path)
            if s != "L":
                collect(s[0], path + "l")
                collect(s[1], path + "r")

        collect(shape, "")
        inner = [p for p in nodes if _at(shape, p) != "L"]
        for ops in itertools.product(["and", "or"], repeat=len(inner)):
            opmap = dict(zip(inner, ops))
            for nots in _subsets(nodes, max_not):
                for pars in _subsets(nodes, max_par):
                    counter = [0]

                    def mk(s, path):
                        if s == "L":
                            i = counter[0]
                            counter[0] += 1
                            if path in nots and i % 2 == 1:
                                a = {"e": "c", "n": CELLS[i % 3]}
                            else:
                                a = {"e": "s", "n": i + 1, "sign": "-" if i % 2 else ("+" if i == 2 else "")}
                                if path in nots:
                                    a = {"e": "not", "a": a}
                        else:
                            a = {"e": opmap[path], "a": mk(s[0], path + "l"), "b": mk(s[1], path + "r")}
                            if path in nots:
                                a = {"e": "not", "a": a}
                        if path in pars:
                            a = {"e": "par", "a": a}
                        return a

                    yield mk(shape, "")


def _at(shape, path):
    for ch in path:
        shape = shape[0] if ch == "l" else shape[1]
    return shape


def _subsets(items, maxsize):
    import itertools

    top = len(items) if maxsize is None else min(maxsize, len(items))
    for k in range(top + 1):
        for c in itertools.combinations(items, k):
            yield set(c)
