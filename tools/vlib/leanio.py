"""Lean side of a check: translator sync, lake build, axiom audit, model drivers."""

import json
import os
import re
import subprocess
import tempfile

from .core import VERIF, REPO, ALLOWED_AXIOMS, MachineryError

LEAN_DIR = os.path.join(VERIF, "lean")
FORBIDDEN = re.compile(r"\bsorry\b|\badmit\b|^axiom |native_decide|bv_decide|implemented_by|\bunsafe |maxHeartbeats 0", re.M)
_synced = False


def _run(cmd, timeout=1800, cwd=LEAN_DIR, input=None):
    env = dict(os.environ)
    env.pop("LEAN_PATH", None)
    try:
        return subprocess.run(cmd, cwd=cwd, capture_output=True, text=True, timeout=timeout, input=input, env=env)
    except subprocess.TimeoutExpired:
        raise MachineryError(f"timeout running {' '.join(cmd[:4])}")
    except FileNotFoundError as e:
        raise MachineryError(f"tool missing: {e}")


def sync(chk=None):
    """Regenerate lean/MontePyVerif/Gen/*.lean from /repo's working tree (only rewritten when changed)."""
    global _synced
    if _synced:
        return
    r = _run(["/venv/bin/python", os.path.join(VERIF, "tools", "extract.py")], cwd=VERIF, timeout=300)
    if r.returncode != 0:
        # the translator imports montepy from the working tree: if that import fails the tree does not "compile"
        raise MachineryError("translator failed: " + (r.stderr or r.stdout)[-1500:])
    if chk is not None:
        try:
            chk.extra["translator"] = json.loads(r.stdout.strip().splitlines()[-1])
        except Exception:
            chk.extra["translator"] = {"raw": r.stdout[-300:]}
    _synced = True


def strip_comments(src):
    src = re.sub(r"/-.*?-/", "", src, flags=re.S)
    src = re.sub(r"--.*", "", src)
    return src


def forbidden_hits():
    hits = []
    for root, _, files in os.walk(os.path.join(LEAN_DIR, "MontePyVerif")):
        for f in files:
            if f.endswith(".lean"):
                p = os.path.join(root, f)
                with open(p) as fh:
                    src = strip_comments(fh.read())
                for m in FORBIDDEN.finditer(src):
                    hits.append(f"{os.path.relpath(p, LEAN_DIR)}: {m.group(0)!r}")
    return hits


def prove(chk, module, theorems, namespace=""):
    """Build `module` and audit every theorem in `theorems` (names relative to `namespace`).
    Records one obligation per theorem in chk."""
    sync(chk)
    chk.checker_cmd = f"cd lean && lake build {module} && lake env lean <audit file with #print axioms per theorem>"
    r = _run(["lake", "build", module])
    build_ok = r.returncode == 0
    build_log = (r.stdout + r.stderr)[-3000:]
    hits = forbidden_hits()
    if not build_ok:
        for t in theorems:
            chk.add_obligation(t, False, "lake build failed: " + _error_excerpt(build_log))
        return False
    full = [(namespace + "." + t if namespace else t) for t in theorems]
    src = f"import {module}\n" + "".join(f"#print axioms {t}\n" for t in full)
    with tempfile.NamedTemporaryFile("w", suffix=".lean", dir=os.path.join(LEAN_DIR, ".lake"), delete=False) as fh:
        fh.write(src)
        path = fh.name
    try:
        a = _run(["lake", "env", "lean", path])
    finally:
        os.unlink(path)
    out = a.stdout + a.stderr
    ok_all = True
    for short, t in zip(theorems, full):
        m = re.search(r"'" + re.escape(t) + r"' depends on axioms: \[([^\]]*)\]", out, flags=re.S)
        m0 = re.search(r"'" + re.escape(t) + r"' does not depend on any axioms", out)
        if m:
            axioms = [x.strip() for x in m.group(1).replace("\n", " ").split(",") if x.strip()]
        elif m0:
            axioms = []
        else:
            chk.add_obligation(short, False, "theorem not found by #print axioms: " + out[-400:])
            ok_all = False
            continue
        bad = [x for x in axioms if x not in ALLOWED_AXIOMS]
        if bad:
            chk.add_obligation(short, False, f"depends on non-standard axioms {bad}", axioms)
            ok_all = False
        elif hits:
            chk.add_obligation(short, False, f"forbidden construct in sources: {hits[:3]}", axioms)
            ok_all = False
        else:
            chk.add_obligation(short, True, "", axioms)
    return ok_all


def leanchecker(chk, modules):
    """thorough tier: independent re-check of the compiled modules."""
    r = _run(["lake", "env", "leanchecker"] + modules, timeout=3600)
    ok = r.returncode == 0
    chk.extra["leanchecker"] = {"modules": modules, "ok": ok, "tail": (r.stdout + r.stderr)[-300:]}
    if not ok:
        chk.broken_obligation("theorem", "leanchecker:" + ",".join(modules), (r.stdout + r.stderr)[-800:])
    return ok


def _error_excerpt(log):
    lines = [l for l in log.splitlines() if "error" in l.lower()]
    return "\n".join(lines[:6]) if lines else log[-600:]


class Driver:
    """A compiled model driver speaking the JSON line protocol (batch mode)."""

    def __init__(self, chk, exe):
        sync(chk)
        r = _run(["lake", "build", exe])
        self.exe = os.path.join(LEAN_DIR, ".lake", "build", "bin", exe)
        self.ok = r.returncode == 0 and os.path.exists(self.exe)
        self.log = (r.stdout + r.stderr)[-2000:]
        if not self.ok:
            chk.broken_obligation("correspondence", f"driver:{exe}", "model driver does not build: " + _error_excerpt(self.log))

    def batch(self, cases, timeout=3600):
        if not self.ok:
            return None
        if not cases:
            return []
        data = "".join(json.dumps(c, separators=(",", ":")) + "\n" for c in cases)
        try:
            r = subprocess.run([self.exe], input=data, capture_output=True, text=True, timeout=timeout)
        except subprocess.TimeoutExpired:
            raise MachineryError(f"model driver timed out on {len(cases)} cases")
        # split on LF only: str.splitlines() would also split on U+0085, U+2028 … inside JSON strings
        lines = r.stdout.split("\n")
        if lines and lines[-1] == "":
            lines.pop()
        if r.returncode != 0 or len(lines) != len(cases):
            raise MachineryError(f"model driver failed rc={r.returncode} lines={len(lines)}/{len(cases)} {r.stderr[-500:]}")
        return [json.loads(l) for l in lines]
