"""Unit U-lexer of C12: the Lean lexer model (Model/Regex.lean + Gen/LexRules.lean + Model/Lexer.lean, through the
compiled driver drv_lex) against MontePy's real SLY lexers.

    run_unit(chk, card_texts)   card_texts: [(kind, text)] of the cards C12 already generated

Four kinds of case (the `op` of the driver request):
  tokenize  Input(lines, block).tokenize()            -> [[type, value]…] + how it ended (ok / exception class)
  lex       <LexerClass>().tokenize(text)  (all five)  -> [[type, value, index]…] + how it ended
  match     re.compile(rule pattern, reflags).match(s) -> matched length | None   (the regex engine alone, rule by rule;
            the model answers twice: continuation-passing matcher and head of the specification `ends`)
  expr      _EXPRESSIONS[i].match(s) / _NUCLIDE_INPUTS.match(s) is not None

Sources: the generated cards of the core grammar G (three layouts), the corpus, every input MontePy's reader makes
of /repo/tests/inputs/*, and a mutated / malformed stream (splices into generated cards, look-alike words joined by
random separators, random strings over the lexers' alphabets, column probes).  Everything derives from chk.rng.
The comparison is exact.  A disagreement is re-run on the real code in the parent before it is reported.
"""

import os
import re
from concurrent.futures import ThreadPoolExecutor

from . import leanio
from .core import REPO
from .par import pmap

CLASSES = {"mcnp": "MCNP_Lexer", "particle": "ParticleLexer", "cell": "CellLexer", "data": "DataLexer", "surface": "SurfaceLexer"}
INPUT_CLASSES = ("cell", "surface", "data")

LETTERS = "cCmMeEijrlIJRLogGxyznpuhfstaTwkbdqv"
DIGITS = "0123456789"
PUNCT = ".+-#$&=:,()*/|!<>%^_~@?\"';[]{}`\\"
BLANKS = "    \t\n\n"
RARE = "\r\x0b\x0c\x1c\x1f\x00\x7f\x08"

WORDS = [
    "c14", "1e5m", "4145.81m", "e", "1-2", "1.5+3", "#5", "c", "C", "c ", "c\t", "sc1 text", "fc4 tally comment", "SC12", "sc1",
    "fc", "message: hi", "MESSAGE: x ", "message:", "1001.80c", "lwtr.20t", "h-h2o.40t", "h/zr.1t", "2r", "3i", "4ilog", "log", "ilog", "2j", "j",
    "1.5m", "0.5m", ".5m", "1e", "1e+", "1.5-", "0", "00", "0.0", "-0", "+0.0e5", "1e-400", "1e-324", "2e-324", "3e-324",
    "2.4703282292062327e-324", "2.4703282292062328e-324", "2.4703282292062327208e-324", "4.9e-324", "1e400", "0e999999999999999999999",
    "1e-99999999999999999999", "0.000000001e-315", "123456789012345678901234567890e-353", "imp:n", "imp:n,p", "mode n p", "mode", "sdef par=x", "par", "spar",
    "par=", "par = &", "u", "x", "y", "z", "fill", "like", "but", "vol", "95242.50nc", "1234.567ab", "92235.80c", "12345.67e5", "58695.87e0",
    "1234.56E-3", "1234.56e", "1234.56em", "elib=03e", "03e", "file=a.b/c", "read file=x.i", "&", "(", ")", "1:2", "-1.2e+3", "+5", ".", "..", "1..2", "1.2.3",
    "e5", "1e5e5", "m1", "mt1", "mx2:n", "mpn3", "awtab", "drxs", "xs1", "*tr1", "*f8:p", "tr1", "f4:n", "fs4", "k/x", "c/z", "px", "so", "rpp", "#",
    "##", "#1", "#(1 2)", "|", "!", "<", ">", "%", "^", "_", "~", "@", "?", "n p e | q", "1m", "1.m", "1.0m", "1mm", "1ma", "12i", "12il", "12ilo", "12ilogx",
    "i", "r", "m", "l", "lj", "1l", "1.5l", "+i", "-.5r", "1e5r", "1e5i", "1E+5j", "1-5m", "1+5m", "1.5e1m", "0m", "00r", "0i", "1001.80", "1001.8c",
    "100.80c", "1234567.80c", "1001.800c", "1001.80cc", "1001.801c", "1001.801cc", "1001.80e", "1001.80e5", "1001.80m", "1001.80M", "1001.80mm", "a.1b", "ab.12c",
    "a1.1b", "a-/.5t", "A.B", "a.b.c", "a/b", "a.", "a..", "x.y/z", "$ comment", "$", "$$", "1 $ x", "c$", "c $", "=", "==", ":", ",", "*", "+", "-", "+-1", "--1", "+.e",
    "0+0", "0-0", "0.+0", "0e", ".0", "-.0e-0", "0000.00c", "0000.00m", "1000.00m", "1E5", "1D5", "1d5", "1_0", "inf", "nan", "infinity", "1e5_0", "٣", "é",
]

# theorems of lean/MontePyVerif/Props/C12Lexer.lean (namespace MontePyVerif.C12Lexer), audited by prove()
THEOREMS = [
    "re_suffix",
    "re_prefix",
    "ends_lt_of_not_nullable",
    "repEnds_fuel",
    "m_eq_findSome",
    "matchFront_eq_spec",
    "lex_lossless",
    "lex_prefix",
    "lex_nonempty",
    "lex_fuel",
    "lex_values_lossless",
    "tokenize_lossless",
    "number_null",
    "number_token_nonzero",
    "lex_literal_tokens",
    "lex_error",
    "generated_lexers_static",
    "generated_expressions_static",
    "lex_total",
    "tokenize_lossless_input",
    "lex_value_eq_raw",
]

# theorems of lean/MontePyVerif/Props/C19Echo.lean (namespace MontePyVerif.C19Echo)
THEOREMS_ECHO = ["format_eq_leaves", "echo_of_leaves", "splitOn_intercalate", "echo_lines"]


def prove(chk):
    ok = leanio.prove(chk, "MontePyVerif.Props.C12Lexer", THEOREMS, "MontePyVerif.C12Lexer")
    ok = leanio.prove(chk, "MontePyVerif.Props.C19Echo", THEOREMS_ECHO, "MontePyVerif.C19Echo") and ok
    if chk.thorough:
        leanio.leanchecker(chk, ["MontePyVerif.Props.C12Lexer", "MontePyVerif.Props.C19Echo"])
    chk.trusted_base = list(chk.trusted_base) + [
        "CPython's re._parser as the reader of the pattern syntax of tokens.py (tools/extractors/lexer_rules.py translates its "
        "parse tree, opcode by opcode, and raises on anything else)",
        "sly/lex.py's tokenize loop as read from its source into Model/Lexer.lean (tied by U-lexer)",
    ]
    return ok


def _mp():
    from . import mp  # noqa: F401  (puts the tree under test on sys.path)

    return mp


def _rule_pattern(L, i):
    v = L._rules[i][1]
    return v if isinstance(v, str) else v.pattern


def real_case(item):
    """one case on the real code (also the worker function of the pool)"""
    mp = _mp()
    from montepy.input_parser import tokens as T
    from montepy.input_parser.block_type import BlockType
    from montepy.input_parser.mcnp_input import Input

    op = item["op"]
    if op == "tokenize":
        block = {"cell": BlockType.CELL, "surface": BlockType.SURFACE, "data": BlockType.DATA}[item["cls"]]
        toks, out = [], "ok"
        try:
            for t in Input(list(item["lines"]), block).tokenize():
                toks.append([t.type, t.value])
        except Exception as e:  # noqa: BLE001  (anything raised is the observation of this case)
            out = type(e).__name__
        return {"toks": toks, "out": out}
    if op == "lex":
        L = getattr(T, CLASSES[item["cls"]])
        toks, out = [], "ok"
        try:
            for t in L().tokenize(item["text"]):
                toks.append([t.type, t.value, t.index])
        except Exception as e:  # noqa: BLE001
            out = type(e).__name__
        return {"toks": toks, "out": out}
    if op == "match":
        L = getattr(T, CLASSES[item["cls"]])
        m = re.compile("(?:" + _rule_pattern(L, item["rule"]) + ")", L.reflags).match(item["text"])
        return None if m is None else len(m.group())
    if op == "expr":
        if item["i"] < 0:
            return T._NUCLIDE_INPUTS.match(item["text"]) is not None
        ex = list(T.MCNP_Lexer._EXPRESSIONS.values())[item["i"]]
        return ex.match(item["text"]) is not None
    raise ValueError(op)


def agree(item, impl, model):
    if isinstance(model, dict) and "error" in model:
        return False
    if item["op"] == "match":
        return isinstance(model, list) and model[0] == impl and model[1] == impl
    return impl == model


def is_ascii(item):
    s = item.get("text")
    if s is None:
        s = "".join(item["lines"])
    return all(ord(c) < 128 for c in s)


def batch_par(drv, cases, n=10):
    """the driver is a pure function per line: run slices in parallel, results in order"""
    if len(cases) < 400:
        return drv.batch(cases)
    size = (len(cases) + n - 1) // n
    parts = [cases[i : i + size] for i in range(0, len(cases), size)]
    with ThreadPoolExecutor(len(parts)) as ex:
        outs = list(ex.map(drv.batch, parts))
    return [r for part in outs for r in part]


# ------------------------------------------------------------------------------------------------ generators
def rand_string(rng, n):
    out = []
    for _ in range(n):
        r = rng.random()
        pool = LETTERS if r < 0.3 else DIGITS if r < 0.55 else PUNCT if r < 0.75 else BLANKS if r < 0.97 else RARE
        out.append(rng.choice(pool))
    return "".join(out)


def rand_words(rng, all_words):
    k = rng.randint(1, 7)
    out = []
    if rng.random() < 0.25:
        out.append(" " * rng.randint(0, 7))
    for i in range(k):
        r = rng.random()
        w = rng.choice(all_words) if r < 0.8 else rand_string(rng, rng.randint(1, 6))
        if rng.random() < 0.15:
            w = w.upper()
        out.append(w)
        r = rng.random()
        out.append(
            " " if r < 0.45 else "  " if r < 0.52 else "\t" if r < 0.57 else "\n" + " " * rng.choice([0, 0, 1, 4, 5, 6, 8]) if r < 0.72
            else "=" if r < 0.78 else ":" if r < 0.82 else "," if r < 0.86 else " & \n" if r < 0.88 else " $ c\n" if r < 0.9 else "\nc x\n" if r < 0.92 else ""
        )
    return "".join(out)


def splice(rng, text):
    s = list(text)
    for _ in range(rng.randint(1, 4)):
        r = rng.random()
        pos = rng.randrange(len(s) + 1)
        if r < 0.45:
            s[pos:pos] = list(rand_string(rng, rng.randint(1, 3)))
        elif r < 0.7 and s:
            del s[min(pos, len(s) - 1)]
        elif r < 0.85 and s:
            s[min(pos, len(s) - 1)] = rand_string(rng, 1)
        else:
            s[pos:pos] = list(rng.choice(WORDS))
    return "".join(s)


def column_probes():
    out = []
    for w in ["c", "C", "c x", "c\tx", "sc1 a", "fc4 b", "SC1", "c14", "c\n", "message: x"]:
        for n in range(0, 9):
            for pre in ["", "1 2\n", "f4:n 1\n", "\t", "1\n\t"]:
                out.append(pre + " " * n + w)
                out.append(pre + " " * n + w + " 5 c 6 sc2 z")
            out.append("1" * n + " " + w)
            out.append("\t" * (n % 3) + " " * n + w + "\t1")
    return out


def repo_inputs(chk):
    """every input of /repo/tests/inputs/*, as MontePy's own reader groups the lines"""
    _mp()
    from montepy.input_parser import input_syntax_reader
    from montepy.input_parser.block_type import BlockType
    from montepy.input_parser.input_file import MCNP_InputFile
    from montepy.input_parser.mcnp_input import Input

    out = []
    d = os.path.join(REPO, "tests", "inputs")
    names = {BlockType.CELL: "cell", BlockType.SURFACE: "surface", BlockType.DATA: "data"}
    for f in sorted(os.listdir(d)) if os.path.isdir(d) else []:
        path = os.path.join(d, f)
        if not os.path.isfile(path):
            continue
        try:
            for inp in input_syntax_reader.read_input_syntax(MCNP_InputFile(path)):
                if isinstance(inp, Input):
                    out.append((names[inp.block_type], list(inp.input_lines)))
            chk.count("lexsrc:repo-file-read")
        except Exception as e:  # noqa: BLE001  (an unreadable test file is not this unit's business: counted)
            chk.count("skipped:repo-file-unreadable:" + type(e).__name__)
    return out


def build_cases(chk, card_texts):
    rng = chk.rng("lexer")
    cases = []
    src = {}

    def add(item, source):
        cases.append(item)
        src[source] = src.get(source, 0) + 1

    for kind, text in card_texts:
        add({"op": "tokenize", "cls": kind, "lines": text.split("\n"), "wellformed": True}, "generated-cards")
    for kind, lines in repo_inputs(chk):
        add({"op": "tokenize", "cls": kind, "lines": lines, "wellformed": True}, "repo-test-inputs")
        add({"op": "lex", "cls": rng.choice(list(CLASSES)), "text": "\n".join(lines) + "\n"}, "repo-test-inputs-raw")
    for t in column_probes():
        add({"op": "tokenize", "cls": rng.choice(INPUT_CLASSES), "lines": t.split("\n")}, "column-probes")
        add({"op": "lex", "cls": rng.choice(list(CLASSES)), "text": t}, "column-probes-raw")
    all_words = WORDS
    for w in WORDS:
        for cls in CLASSES:
            add({"op": "lex", "cls": cls, "text": w}, "look-alike-words")
        add({"op": "lex", "cls": "data", "text": "m1 " + w + " "}, "look-alike-words")
        add({"op": "lex", "cls": "particle", "text": "mode " + w}, "look-alike-words")
        add({"op": "lex", "cls": "particle", "text": "sdef par=" + w}, "look-alike-words")
    texts = [t for _, t in card_texts]
    n_mut = chk.pick(12000, 120000)
    for i in range(n_mut):
        r = rng.random()
        if r < 0.45 and texts:
            t = splice(rng, rng.choice(texts))
            s = "spliced-cards"
        elif r < 0.85:
            t = rand_words(rng, all_words)
            s = "joined-words"
        else:
            t = rand_string(rng, rng.randint(1, 30))
            s = "random-strings"
        if rng.random() < 0.6:
            add({"op": "tokenize", "cls": rng.choice(INPUT_CLASSES), "lines": t.split("\n")}, s)
        else:
            add({"op": "lex", "cls": rng.choice(list(CLASSES)), "text": t}, s + "-raw")
    # the regex engine alone: rule i of a class at the front of a word / a short text
    _mp()
    from montepy.input_parser import tokens as T

    nrules = {c: len(getattr(T, n)._rules) for c, n in CLASSES.items()}
    for w in WORDS:
        for i in range(nrules["data"]):
            add({"op": "match", "cls": "data", "rule": i, "text": w + rng.choice(["", " ", "\n", "x", "1"])}, "regex-rule-by-rule")
        for i in range(len(T.MCNP_Lexer._EXPRESSIONS)):
            add({"op": "expr", "i": i, "text": w}, "regex-expressions")
            add({"op": "expr", "i": i, "text": w + "\n"}, "regex-expressions")
        add({"op": "expr", "i": -1, "text": w}, "regex-expressions")
    for _ in range(chk.pick(3000, 30000)):
        cls = rng.choice(list(CLASSES))
        t = rand_words(rng, all_words) if rng.random() < 0.5 else rand_string(rng, rng.randint(1, 14))
        add({"op": "match", "cls": cls, "rule": rng.randrange(nrules[cls]), "text": t}, "regex-rule-by-rule")
    return cases, src


# ------------------------------------------------------------------------------------------------ shrinking
def shrink(drv, item):
    """smallest text (by deleting characters) on which model and code still disagree"""
    key = "text" if "text" in item else "lines"

    def text_of(it):
        return it["text"] if key == "text" else "\n".join(it["lines"])

    def with_text(t):
        return dict(item, text=t) if key == "text" else dict(item, lines=t.split("\n"))

    def fails(t):
        it = with_text(t)
        if not is_ascii(it):
            return False
        try:
            return not agree(it, real_case(it), drv.batch([it])[0])
        except Exception:  # noqa: BLE001
            return False

    t = text_of(item)
    chunk = max(1, len(t) // 2)
    rounds = 0
    while chunk >= 1 and rounds < 400:
        i = 0
        shrunk = False
        while i < len(t) and rounds < 400:
            rounds += 1
            cand = t[:i] + t[i + chunk :]
            if cand and fails(cand):
                t = cand
                shrunk = True
            else:
                i += chunk
        if not shrunk:
            chunk //= 2
    return with_text(t)


# ------------------------------------------------------------------------------------------------ Echo, measured
def leaves_of(node, out):
    """the source texts stored in a syntax tree, in format order (Props/C19Echo.lean: Tree.leaves)"""
    from montepy.input_parser import syntax_node as sn

    if node is None:
        return
    if isinstance(node, str):
        out.append(node)
    elif isinstance(node, sn.ValueNode):
        if node._token is not None:
            out.append(str(node._token))
        leaves_of(node.padding, out)
    elif isinstance(node, sn.PaddingNode):
        for n in node.nodes:
            leaves_of(n, out)
    elif isinstance(node, sn.ParticleNode):
        out.append(str(node._token))
    elif isinstance(node, sn.ShortcutNode):
        for n in node._original:
            leaves_of(n, out)
        leaves_of(node._end_pad, out)
    elif isinstance(node, sn.IsotopesNode):
        for pair in node.nodes:
            for n in pair:
                leaves_of(n, out)
    elif isinstance(node, sn.ClassifierNode):
        for n in (node.modifier, node.prefix, node.number, node.particles, node.padding):
            leaves_of(n, out)
    elif isinstance(node, (sn.SyntaxNode, sn.GeometryTree, sn.ParametersNode)):
        for n in node.nodes.values():
            leaves_of(n, out)
    elif isinstance(node, (sn.ListNode, sn.CommentNode)):
        for n in node.nodes:
            leaves_of(n, out)
    else:
        raise TypeError(type(node).__name__)


def echo_case(item):
    """one well-formed input: the two measured hypotheses of Props/C19Echo.lean and Echo itself, on the real objects"""
    mp = _mp()
    lines = list(item["lines"])
    build = {"cell": mp.cell_from, "surface": mp.surface_from, "data": mp.data_from}[item["cls"]]
    res = {}
    try:
        toks = real_case(item)
        if toks["out"] != "ok":
            return {"skip": "lexer:" + toks["out"]}
        try:
            obj = build(lines)
        except Exception as e:  # noqa: BLE001
            return {"skip": "parse:" + type(e).__name__}
        # the tree as the SLY parser built it (the object's constructor may add default nodes to its own copy:
        # Cell._parse_keyword_modifiers): parse once more with the parser the object used, as MCNP_Object.__init__ does
        from montepy.input_parser.block_type import BlockType
        from montepy.input_parser.mcnp_input import Input

        block = {"cell": BlockType.CELL, "surface": BlockType.SURFACE, "data": BlockType.DATA}[item["cls"]]
        parser = getattr(obj, "_parser", None)
        if parser is None:
            return {"skip": "no-parser"}
        inp = Input(lines, block)
        try:
            parser.restart()
        except AttributeError:
            pass
        tree = parser.parse(inp.tokenize(), inp)
        if tree is None:
            return {"skip": "no-tree"}
        try:
            out = []
            leaves_of(tree, out)
        except TypeError as e:
            return {"skip": "leaf-walk:" + str(e)}
        text = "\n".join(lines)
        spelled = "".join(out)
        res["leaves_are_tokens"] = spelled == "".join(v for _, v in toks["toks"])
        res["leaves_exact"] = [x for x in out if x] == [v for _, v in toks["toks"]]
        res["format_is_concat"] = tree.format() == spelled
        res["tree_echo"] = tree.format() == text
        res["pre"] = "\t" not in text and bool(lines) and lines[-1] != "" and all("\n" not in l for l in lines)
        import warnings

        try:
            with warnings.catch_warnings():
                warnings.simplefilter("ignore")
                res["echo"] = obj.format_for_mcnp_input((6, 2, 0)) == lines
        except Exception as e:  # noqa: BLE001
            res["echo"] = "raises:" + type(e).__name__
    except Exception as e:  # noqa: BLE001
        return {"skip": "harness:" + type(e).__name__}
    return res


def measure_echo(chk, cases):
    """counters echo:* — how often LeavesAreTokens holds on the trees SLY builds; and the instance of the theorem
    `C19Echo.echo_of_leaves` on every input (both hypotheses + preconditions => the tree formats to the text)"""
    items = [c for c in cases if c["op"] == "tokenize" and c.get("wellformed")]
    res = pmap(echo_case, items, chunksize=16)
    n = {"inputs": len(items)}
    samples = {}
    for it, r in zip(items, res):
        for key, bad in (("not_leaves_are_tokens", r.get("leaves_are_tokens") is False), ("format_rederives_text", r.get("format_is_concat") is False)):
            if bad and len(samples.setdefault(key, [])) < 4:
                samples[key].append({"cls": it["cls"], "lines": it["lines"]})
        if "skip" in r:
            chk.count("echo:skipped:" + r["skip"].split(":")[0])
            continue
        chk.count("echo:leaves_are_tokens" if r["leaves_are_tokens"] else "echo:not")
        chk.count("echo:leaves_exact" if r["leaves_exact"] else "echo:leaves_finer_or_other")
        chk.count("echo:format_is_concat" if r["format_is_concat"] else "echo:format_rederives_text")
        chk.count("echo:tree_formats_to_text" if r["tree_echo"] else "echo:tree_formats_differently")
        chk.count("echo:public_format_equals_lines" if r["echo"] is True else "echo:public_format_differs" if r["echo"] is False else "echo:public_format_needs_a_problem")
        if r["leaves_are_tokens"] and r["format_is_concat"] and r["pre"]:
            chk.count("echo:theorem_instance_checked")
            if not r["tree_echo"]:
                # C19Echo.echo_of_leaves says this cannot happen: the lexer model or the leaf walk is wrong
                if echo_case(it) == r:
                    chk.broken_obligation("correspondence", "U-echo (C19Echo.echo_of_leaves instance)", r, it)
    n.update({k[5:]: v for k, v in sorted(chk.dist.items()) if k.startswith("echo:")})
    n["samples_where_a_hypothesis_fails"] = samples
    chk.units["U-echo"] = n


# ------------------------------------------------------------------------------------------------ the unit
def run_unit(chk, card_texts):
    prove(chk)
    drv = leanio.Driver(chk, "drv_lex")
    if not drv.ok:
        return
    cases, src = build_cases(chk, card_texts)
    impl = pmap(real_case, cases, chunksize=64)
    model = batch_par(drv, cases)
    bad = []
    n_tok = 0
    per_op = {}
    outcomes = {}
    for item, o, m in zip(cases, impl, model):
        if isinstance(m, dict) and m.get("out") == "nonascii":
            chk.count("skipped:lexer-nonascii")
            continue
        chk.traces_validated += 1
        per_op[item["op"]] = per_op.get(item["op"], 0) + 1
        if item["op"] in ("tokenize", "lex"):
            outcomes[o["out"]] = outcomes.get(o["out"], 0) + 1
            name = CLASSES[item["cls"]]
            for t in o["toks"]:
                chk.count(f"lex:{name}:{t[0]}")
                n_tok += 1
            if o["out"] != "ok":
                chk.count(f"lex:{name}:raises:{o['out']}")
        if not agree(item, o, m):
            bad.append((item, o, m))
    reported = 0
    for item, o, m in bad:
        chk.disagreements_checked += 1
        if real_case(item) != o:
            chk.count("flaky:disagreement-not-reproduced")
            continue
        if reported < 5:
            small = shrink(drv, item)
            chk.broken_obligation(
                "correspondence",
                "U-lexer (Model/Lexer.lean + Gen/LexRules.lean vs the SLY lexers of tokens.py)",
                {"impl": real_case(small), "model": drv.batch([small])[0], "unshrunk": item},
                small,
            )
            reported += 1
    chk.units["U-lexer"] = {
        "cases": len(cases),
        "compared": sum(per_op.values()),
        "by_op": per_op,
        "by_source": src,
        "tokens_compared": n_tok,
        "outcomes_of_the_real_lexer": outcomes,
        "disagreements": len(bad),
    }
    measure_echo(chk, cases)
    chk.extra["lexer_model"] = {"driver": "drv_lex", "cases": len(cases), "disagreements": len(bad)}
    return bad
