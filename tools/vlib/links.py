"""C16 helpers: case description -> MCNP text, execution of an edit script on the real MontePy objects,
observation of forward links and reverse look-ups by object identity.

A case (JSON):
  surfaces   [[number, shape, transform id | null], ...]   pool; the first `file_surfaces` are in the file
  materials  [[number, shape], ...]                         pool; the first `file_materials` are in the file
  transforms [number, ...]                                  pool; the first `file_transforms` are in the file
  cells      [{num, mat (number, 0 = void), geom (numbers at the leaves), u, fill}, ...]   the cells of the file
  fresh_cells [number, ...]                                 Cell() objects made from scratch
  universes  [number, ...]                                  Universe(n) objects made from scratch; their pool ids
                                                            follow the universes created by reading the file
  origins    {kind: [origin of each pool object that is not in the file]}: "scratch" | "deepcopy" (of a member: linked to a
             hidden copy of the problem) | "qmember" / "qremoved" (is / was a member of a second problem) | "shallow"
             (copy.copy of a member: linked to this problem, shares the member's nodes)
  ops        edit script over pool ids
Geometry: ["s", x, side] | ["c", x] (#cell) | ["#", g] | ["&", l, r] | ["|", l, r];  x is a number in `cells`,
a pool id in `ops`.
"""
import os
import shutil
import signal
import tempfile

ERRS = {"TypeError", "ValueError", "NumberConflictError", "BrokenObjectLinkError", "KeyError", "AttributeError"}
KINDS = ["cell", "surface", "material", "universe", "transform"]


# --------------------------------------------------------------------------- text
def geom_text(g, top=True):
    t = g[0]
    if t == "s":
        return ("" if g[2] else "-") + str(g[1])
    if t == "c":
        return "#" + str(g[1])
    if t == "#":
        return "#(" + geom_text(g[1]) + ")"
    body = geom_text(g[1], False) + (" " if t == "&" else " : ") + geom_text(g[2], False)
    return body if top else "(" + body + ")"


def case_text(case):
    lines = ["verif C16 generated problem"]
    for c in case["cells"]:
        mat = f"{c['mat']} -1.0" if c["mat"] else "0"
        line = f"{c['num']} {mat}     {geom_text(c['geom'])} imp:n=1"  # no '#' in columns 1-5
        if c.get("u") is not None:
            line += f" u={c['u']}"
        if c.get("fill") is not None:
            line += f" fill={c['fill']}"
        lines.append(line)
    lines.append("")
    for i in range(case["file_surfaces"]):
        num, shape, tr = case["surfaces"][i]
        # a transform that is not in the file is given to the surface after reading (World.__init__)
        trs = f" {case['transforms'][tr]}" if tr is not None and tr < case["file_transforms"] else ""
        lines.append(f"{num}{trs} pz {shape}.5")
    lines.append("")
    for i in range(case["file_materials"]):
        num, shape = case["materials"][i]
        lines.append(f"m{num} 1001.80c 1.0 8016.80c {shape + 1}.0")
    for i in range(case["file_transforms"]):
        lines.append(f"tr{case['transforms'][i]} 0 0 {i}.5")
    lines.append("mode n")
    lines.append("")
    return "\n".join(lines) + "\n"


def read_text(text):
    from vlib import mp

    d = tempfile.mkdtemp(prefix="verif_c16_")
    try:
        path = os.path.join(d, "in.imcnp")
        with open(path, "w") as fh:
            fh.write(text)
        return mp.montepy.read_input(path)
    finally:
        shutil.rmtree(d, ignore_errors=True)


# --------------------------------------------------------------------------- live objects
class World:
    """The problem and the object pool of one case."""

    def __init__(self, problem, case=None):
        from vlib import mp

        self.p = problem
        self.pool = {k: [] for k in KINDS}
        self.pool["cell"] = list(problem.cells)
        self.pool["surface"] = list(problem.surfaces)
        self.pool["material"] = list(problem.materials)
        self.pool["transform"] = list(problem.transforms)
        self.pool["universe"] = list(problem.universes)
        if case is not None:
            import copy

            montepy = mp.montepy
            # other problems: objects that are (or were) members there come in linked to them
            # (one problem per object, so that their numbers cannot collide over there)
            self.others = []

            def other_problem():
                self.others.append(montepy.MCNP_Problem("verif-c16-other-problem"))
                return self.others[-1]
            origins = case.get("origins", {})

            def origin(kind, j):
                l = origins.get(kind, [])
                return l[j] if j < len(l) else "scratch"

            def make(kind, j, build, qcoll, set_number, number):
                """one pool object that is not in the file, made the way its origin says"""
                how = origin(kind, j)
                members = self.pool[kind][: {"surface": case["file_surfaces"], "material": case["file_materials"],
                                             "transform": case["file_transforms"]}.get(kind, len(self.pool[kind]))]
                if how in ("deepcopy", "shallow") and members:
                    src = members[j % len(members)]
                    obj = copy.deepcopy(src) if how == "deepcopy" else copy.copy(src)
                    if how == "deepcopy":
                        set_number(obj, number)  # bypasses the validator, which would ask the hidden copy of the problem
                    return obj
                obj = build()
                if how in ("qmember", "qremoved"):
                    coll = qcoll(other_problem())
                    coll.append(obj)
                    if how == "qremoved":
                        coll.remove(obj)
                return obj

            def node_number(obj, n):
                obj._number.value = n

            for i in range(case["file_transforms"], len(case["transforms"])):
                n = case["transforms"][i]
                self.pool["transform"].append(
                    make("transform", i - case["file_transforms"], lambda n=n, i=i: mp.data_from(f"tr{n} 0 0 {i}.5"),
                         lambda q: q.transforms, node_number, n))
            for i in range(case["file_surfaces"]):
                # a surface of the file that the user gave a transform made after reading (public setter)
                tr = case["surfaces"][i][2]
                if tr is not None and tr >= case["file_transforms"]:
                    self.pool["surface"][i].transform = self.pool["transform"][tr]
            for i in range(case["file_surfaces"], len(case["surfaces"])):
                num, shape, tr = case["surfaces"][i]
                s = make("surface", i - case["file_surfaces"], lambda num=num, shape=shape: mp.surface_from(f"{num} PZ {shape}.5"),
                         lambda q: q.surfaces, node_number, num)
                s._transform = self.pool["transform"][tr] if tr is not None else None
                self.pool["surface"].append(s)
            for i in range(case["file_materials"], len(case["materials"])):
                num, shape = case["materials"][i]
                self.pool["material"].append(
                    make("material", i - case["file_materials"],
                         lambda num=num, shape=shape: mp.data_from(f"m{num} 1001.80c 1.0 8016.80c {shape + 1}.0"),
                         lambda q: q.materials, node_number, num))
            for j, n in enumerate(case["fresh_cells"]):
                def build_cell(n=n):
                    c = montepy.Cell()
                    c.number = n
                    return c
                how = origin("cell", j)
                c = build_cell()
                if how in ("qmember", "qremoved"):
                    q = other_problem()
                    q.cells.append(c)
                    if how == "qremoved":
                        q.cells.remove(c)
                self.pool["cell"].append(c)
            loaded_u = list(self.pool["universe"])
            for j, n in enumerate(case["universes"]):
                how = origin("universe", j)
                if how == "deepcopy" and loaded_u:
                    u = copy.deepcopy(loaded_u[j % len(loaded_u)])
                    u._number = n
                else:
                    u = montepy.Universe(n)
                    if how in ("qmember", "qremoved"):
                        q = other_problem()
                        q.universes.append(u)
                        if how == "qremoved":
                            q.universes.remove(u)
                self.pool["universe"].append(u)
        self.ident = {}
        for k in KINDS:
            for i, o in enumerate(self.pool[k]):
                self.ident[id(o)] = (k, i)

    def idx(self, o, kind=None):
        if o is None:
            return None
        k = self.ident.get(id(o))
        if k is None:
            return "foreign"
        if kind is not None and k[0] != kind:
            return "foreign:" + k[0]
        return k[1]

    # ---- geometry
    def build(self, g):
        t = g[0]
        if t == "s":
            s = self.pool["surface"][g[1]]
            return +s if g[2] else -s
        if t == "c":
            return ~self.pool["cell"][g[1]]
        if t == "#":
            return ~self.build(g[1])
        l, r = self.build(g[1]), self.build(g[2])
        return (l & r) if t == "&" else (l | r)

    def node_at(self, cell, path):
        from vlib import mp

        node = cell.geometry
        if node is None:
            raise AttributeError("no geometry")
        Unit = mp.montepy.surfaces.half_space.UnitHalfSpace
        for b in path:
            if isinstance(node, Unit):
                raise AttributeError("path runs through a leaf")
            node = node.right if b else node.left
            if node is None:
                raise AttributeError("path runs through a missing right side")
        return node

    def leaves(self, g):
        from vlib import mp

        Unit = mp.montepy.surfaces.half_space.UnitHalfSpace
        out_s, out_c = [], []

        def rec(n):
            if isinstance(n, Unit):
                d = n.divider
                if n.is_cell:
                    out_c.append(self.idx(d, "cell") if not isinstance(d, int) else f"int:{d}")
                else:
                    out_s.append(self.idx(d, "surface") if not isinstance(d, int) else f"int:{d}")
                return
            rec(n.left)
            if n.right is not None:
                rec(n.right)

        if g is not None:
            rec(g)
        return out_s, out_c

    # ---- observation (identity everywhere)
    def link_of(self, o):
        """identity of the link target: this problem, another problem, or nothing"""
        if o._problem is self.p:
            return "here"
        return "other" if o._problem is not None else None

    def observe(self):
        p = self.p
        # universes made by the code itself after the load (push_to_cells run again) join the pool
        for u in list(p.universes) + [c.universe for c in self.pool["cell"]]:
            if u is not None and id(u) not in self.ident:
                self.ident[id(u)] = ("universe", len(self.pool["universe"]))
                self.pool["universe"].append(u)

        def srt(xs):
            return sorted(xs, key=lambda v: (isinstance(v, str), v))

        cells = []
        for c in self.pool["cell"]:
            ls, lc = self.leaves(c.geometry)
            cells.append(
                {
                    "num": c.number,
                    "link": self.link_of(c),
                    "leaves_s": ls,
                    "leaves_c": lc,
                    "has_geom": c.geometry is not None,
                    "surfs": srt(self.idx(s, "surface") for s in c.surfaces),
                    "comps": srt(self.idx(s, "cell") for s in c.complements),
                    "mat": self.idx(c.material, "material"),
                    "univ": self.idx(c.universe, "universe"),
                    "fill": self.idx(c.fill.universe, "universe"),
                    "compl_by": "other" if self.link_of(c) == "other" else [self.idx(d, "cell") for d in c.cells_complementing_this],
                }
            )
        def rev(o):
            # an object that is linked to another problem answers for that problem: not comparable with the model
            return "other" if self.link_of(o) == "other" else [self.idx(c, "cell") for c in o.cells]

        surfaces = [{"num": s.number, "link": self.link_of(s), "cells": rev(s)} for s in self.pool["surface"]]
        materials = [{"num": m.number, "link": self.link_of(m), "cells": rev(m)} for m in self.pool["material"]]
        universes = [{"num": u.number, "link": self.link_of(u), "cells": rev(u)} for u in self.pool["universe"]]
        transforms = [{"num": t.number, "link": self.link_of(t)} for t in self.pool["transform"]]
        colls = {"cell": p.cells, "surface": p.surfaces, "material": p.materials, "universe": p.universes, "transform": p.transforms}
        di = p.data_inputs
        return {
            "cells": cells,
            "surfaces": surfaces,
            "materials": materials,
            "universes": universes,
            "transforms": transforms,
            "members": {k: [self.idx(o, k) for o in colls[k]] for k in KINDS},
            "owned": {k: colls[k]._problem is p for k in KINDS},
            "data": {
                "m": srt(self.idx(o, "material") for o in di if any(o is m for m in self.pool["material"])),
                "t": srt(self.idx(o, "transform") for o in di if any(o is t for t in self.pool["transform"])),
            },
        }

    def extra(self):
        """facts the oracle needs that are not part of the model comparison: live `==` classes and
        surface.transform, all by pool id"""
        S, M = self.pool["surface"], self.pool["material"]
        raw = lambda objs, f: [[self.idx(c, "cell") for c in f(o)] for o in objs]  # noqa: E731
        return {
            "rev_raw": {
                "surface": raw(S, lambda o: o.cells), "material": raw(M, lambda o: o.cells),
                "universe": raw(self.pool["universe"], lambda o: o.cells),
                "cell": raw(self.pool["cell"], lambda o: o.cells_complementing_this),
            },
            "seq": [[j for j, t in enumerate(S) if t is not s and s == t] for s in S],
            "meq": [[j for j, t in enumerate(M) if t is not m and m == t] for m in M],
            "strans": [self.idx(s.transform, "transform") for s in S],
        }

    # ---- edits
    def do(self, op):
        p, pool = self.p, self.pool
        name = op[0]
        if name == "set_geom":
            pool["cell"][op[1]].geometry = self.build(op[2])
        elif name in ("iand", "ior"):
            c = pool["cell"][op[1]]
            g = self.build(op[2])
            if name == "iand":
                c.geometry &= g
            else:
                c.geometry |= g
        elif name in ("iand_alias", "ior_alias"):
            h = pool["cell"][op[1]].geometry
            g = self.build(op[2])
            if name == "iand_alias":
                h &= g
            else:
                h |= g
        elif name == "set_div":
            from vlib import mp

            node = self.node_at(pool["cell"][op[1]], op[2])
            if not isinstance(node, mp.montepy.surfaces.half_space.UnitHalfSpace):
                raise AttributeError("divider of an inner node")
            node.divider = pool["cell" if op[3] else "surface"][op[4]]
        elif name in ("set_left", "set_right"):
            from vlib import mp

            node = self.node_at(pool["cell"][op[1]], op[2])
            if isinstance(node, mp.montepy.surfaces.half_space.UnitHalfSpace):
                raise AttributeError("child of a leaf")
            new = self.build(op[3])
            if name == "set_right":
                if node.right is None:
                    raise ValueError("a complement has no right side")
                node.right = new
            else:
                node.left = new
        elif name == "set_mat":
            pool["cell"][op[1]].material = None if op[2] is None else pool["material"][op[2]]
        elif name == "set_univ":
            pool["cell"][op[1]].universe = pool["universe"][op[2]]
        elif name == "claim":
            pool["universe"][op[1]].claim([pool["cell"][i] for i in op[2]])
        elif name == "set_fill":
            pool["cell"][op[1]].fill.universe = None if op[2] is None else pool["universe"][op[2]]
        elif name == "set_num":
            pool[op[1]][op[2]].number = op[3]
        elif name == "append":
            self.coll(op[1]).append(pool[op[1]][op[2]])
        elif name == "remove":
            self.coll(op[1]).remove(pool[op[1]][op[2]])
        elif name == "extend":
            self.coll(op[1]).extend([pool[op[1]][i] for i in op[2]])
        elif name == "iadd":
            c = self.coll(op[1])
            c += [pool[op[1]][i] for i in op[2]]
        elif name == "append_renumber":
            self.coll(op[1]).append_renumber(pool[op[1]][op[2]])
        elif name == "set_materials":
            p.materials = [pool["material"][i] for i in op[1]]
        elif name == "set_cells":
            p.cells = [pool["cell"][i] for i in op[1]]
        elif name == "children":
            p.add_cell_children_to_problem()
        elif name == "reupdate":
            p.remove_duplicate_surfaces(1e-9)
        else:
            raise AssertionError(name)

    def coll(self, kind):
        p = self.p
        return {"cell": p.cells, "surface": p.surfaces, "material": p.materials, "universe": p.universes, "transform": p.transforms}[kind]

    def duplicate_map(self):
        """what mcnp_problem.remove_duplicate_surfaces would find (pure look-up, same loop as the code)"""
        to_delete, pairs = [], []
        for s in self.p.surfaces:
            if not any(s is d for d in to_delete):
                for m in s.find_duplicate_surfaces(self.p.surfaces, 1e-9) or []:
                    to_delete.append(m)
                    pairs.append([self.idx(m, "surface"), self.idx(s, "surface")])
        return pairs


class _Hang(Exception):
    pass


def _alarm(*a):
    raise _Hang()


def run_impl(case):
    """Execute the case on the real code.  Same JSON shape as the Lean driver, plus `extra` per observation
    (oracle-only facts) and `dups` for a `reupdate` step."""
    try:
        p = read_text(case_text(case))
    except Exception as e:  # noqa: BLE001
        n = type(e).__name__
        return {"load": n if n in ERRS else "leak:" + n}
    w = World(p, case)
    res = {"load": w.observe(), "load_extra": w.extra(), "steps": []}
    old = signal.signal(signal.SIGALRM, _alarm)
    try:
        for op in case["ops"]:
            signal.setitimer(signal.ITIMER_REAL, 60.0)  # generous: the machine may be heavily loaded
            dups = None
            foreign_num = False
            try:
                if op[0] == "reupdate":
                    dups = w.duplicate_map()
                if op[0] == "set_num" and w.link_of(w.pool[op[1]][op[2]]) == "other":
                    foreign_num = True  # the setter asks the OTHER problem's collection: not modelled
                w.do(op)
                out = "ok"
            except _Hang:
                out = "hang"
            except Exception as e:  # noqa: BLE001
                n = type(e).__name__
                out = n if n in ERRS else "leak:" + n
            finally:
                signal.setitimer(signal.ITIMER_REAL, 0)
            step = {"out": out}
            if dups is not None:
                step["dups"] = dups
            if foreign_num:
                step["foreign_num"] = True
            if out == "hang":
                res["steps"].append(step)
                break
            try:
                step["obs"] = w.observe()
                step["extra"] = w.extra()
            except Exception as e:  # noqa: BLE001
                step["obs"] = {"observe_failed": type(e).__name__ + ": " + str(e)[:200]}
                res["steps"].append(step)
                break
            res["steps"].append(step)
    finally:
        signal.signal(signal.SIGALRM, old)
    return res
