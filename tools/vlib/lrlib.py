"""U-lr — the LR machine of Model/LR.lean over the dumped SLY tables  vs  the real SLY parser.

For every card the C12 generators produce (G sentences in three layouts, the corpus), every card of the files under
<repo>/tests/inputs, and malformed token streams derived from them (token deletions / insertions / swaps /
replacements on the REAL token objects), the real parser runs with a reduction trace and the Lean driver `drv_lr`
runs on the same token TYPE sequence.  Compared: accept / reject, the sequence of production indices reduced (up to
the first syntax error), and the position of the offending token.

Tracing is monkeypatching in the harness process only (never an edit of the tree under verification):
  * `Production.func` of every production of every parser class is wrapped to record the production index;
  * `MCNP_Parser.parse` is wrapped to record the token types the parser pulls (what `Input.tokenize()` yields, as the
    parser sees them) and whether the returned tree is None;
  * `MCNP_Parser.error` is wrapped to record WHEN the first syntax error is reported (reductions so far, tokens
    pulled so far).  After it SLY's panic-mode recovery keeps calling production functions; MontePy discards the
    result (`len(self.log) > 0 -> None`), the model stops at the error, and so does the comparison.
An exception raised by a semantic action (ValueError in a production function …) is outside the model: the trace
up to the raise must be a prefix of the model's reductions; such runs are counted (`raised`).
"""

import copy
import glob
import json
import os
import random
import signal

from . import g12, leanio
from .core import REPO, MachineryError
from .par import pmap

THEOREMS = [
    "C12LR_sound",
    "C12LR_deterministic",
    "C12LR_fuel",
    "C12LR_tables_ok",
    "C12LR_grammar_agree",
    "C12LR_montepy",
    "C12LR_defaulted",
    "C12LR_error_hook",
    "C12LR_rightmost",
    "C12LR_complete_flat_geometry",
    "C12LR_flat_geometry_sentences",
]
UNIT = "U-lr (Model/LR.lean over Gen/LrTables.lean vs sly.yacc.Parser.parse)"
_INSTALLED = False
_ACTIVE = False  # records are taken only while run_item is on the stack: the wrappers are transparent otherwise
_CUR = []
_LOG = []
TABLES = None
GUARD_S = 60.0


def _parser_classes():
    import importlib.util

    here = os.path.join(os.path.dirname(os.path.dirname(os.path.abspath(__file__))), "extractors", "c12_tables.py")
    spec = importlib.util.spec_from_file_location("c12_tables_for_lr", here)
    mod = importlib.util.module_from_spec(spec)
    spec.loader.exec_module(mod)
    return mod.parser_classes()


def install():
    """wrap the production functions, MCNP_Parser.parse and MCNP_Parser.error of the imported MontePy"""
    global _INSTALLED
    if _INSTALLED:
        return
    from . import mp  # noqa: F401  (MontePy from VERIF_REPO)
    from montepy.input_parser.parser_base import MCNP_Parser

    for P in _parser_classes():
        for p in P._grammar.Productions:
            if p.func is None or getattr(p.func, "_lr_traced", False):
                continue

            def wrapper(self, pslice, _orig=p.func, _i=p.number):
                if _CUR:
                    _CUR[-1]["reds"].append(_i)
                return _orig(self, pslice)

            wrapper._lr_traced = True
            p.func = wrapper

    orig_parse = MCNP_Parser.parse
    orig_error = MCNP_Parser.error

    def parse(self, token_generator, input=None):
        if not _ACTIVE:
            return orig_parse(self, token_generator, input)
        rec = {"p": type(self).__name__, "toks": [], "objs": [], "reds": [], "err": None, "lex": None}
        it = iter(token_generator)

        def gen():
            while True:
                try:
                    tok = next(it)
                except StopIteration:
                    return
                except Exception as e:  # noqa: BLE001  the lexer refused a character: no token stream to compare
                    rec["lex"] = type(e).__name__
                    raise
                rec["toks"].append(tok.type)
                rec["objs"].append(tok)
                yield tok

        _CUR.append(rec)
        try:
            tree = orig_parse(self, gen(), input)
            rec["result"] = "accept" if tree is not None else "none"
            return tree
        except BaseException as e:  # noqa: BLE001
            rec["result"] = "raise:" + type(e).__name__
            raise
        finally:
            _CUR.pop()
            # the tokens SLY did not pull (it stops pulling once it gives up)
            if rec["lex"] is None:
                try:
                    for tok in it:
                        rec["toks"].append(tok.type)
                        rec["objs"].append(tok)
                except Exception as e:  # noqa: BLE001
                    rec["lex"] = type(e).__name__
            _LOG.append(rec)

    def error(self, token):
        if _CUR and _CUR[-1]["err"] is None:
            rec = _CUR[-1]
            rec["err"] = {"nreds": len(rec["reds"]), "ntoks": len(rec["toks"]), "tok": token.type if token else "$end"}
        return orig_error(self, token)

    MCNP_Parser.parse = parse
    MCNP_Parser.error = error
    _INSTALLED = True


class _Hang(Exception):
    pass


def _alarm(*a):
    raise _Hang()


def _compact(rec, kind):
    return {"p": rec["p"], "toks": rec["toks"], "reds": rec["reds"], "err": rec["err"], "lex": rec["lex"], "result": rec["result"], "kind": kind}


def _mutate(rng, objs, terminals):
    """one malformed stream: the real token objects with one or two edits (`retype`: a token keeps its value and
    position but gets another terminal of the grammar as its type — columns the lexer rarely produces there)"""
    toks = list(objs)
    ops = []
    for _ in range(rng.choice([1, 1, 2])):
        if not toks:
            break
        op = rng.choice(["del", "dup", "swap", "ins", "trunc", "repl", "retype", "retype"])
        i = rng.randrange(len(toks))
        if op == "del":
            del toks[i]
        elif op == "dup":
            toks.insert(i, toks[i])
        elif op == "swap" and len(toks) > 1:
            j = min(i + 1, len(toks) - 1)
            toks[i], toks[j] = toks[j], toks[i]
        elif op == "ins":
            toks.insert(i, rng.choice(objs))
        elif op == "trunc":
            toks = toks[: max(1, i)]
        elif op == "retype":
            t2 = copy.copy(toks[i])
            t2.type = rng.choice(terminals)
            toks[i] = t2
        else:
            toks[i] = rng.choice(objs)
        ops.append(op)
    return toks, ops


def _run_mutants(rng, recs, per_rec):
    """feed malformed streams built from the recorded token objects straight to a fresh parser of the same class"""
    classes = {P.__name__: P for P in _parser_classes()}
    out = []
    for rec in recs:
        if rec["lex"] is not None or not rec["objs"]:
            continue
        for _ in range(per_rec):
            terminals = sorted(t for t in classes[rec["p"]]._grammar.Terminals if t not in ("error", "$end"))
            toks, ops = _mutate(rng, rec["objs"], terminals)
            toks = [copy.copy(t) for t in toks]
            parser = classes[rec["p"]]()
            del _LOG[:]
            try:
                parser.restart()
            except AttributeError:
                pass
            try:
                parser.parse(iter(toks), None)
            except _Hang:
                raise
            except Exception:  # noqa: BLE001  a semantic action raised: recorded in the trace record
                pass
            for r in _LOG:
                out.append(_compact(r, "malformed:" + "+".join(ops)))
    return out


def run_item(item):
    """one work item on the real code under tracing -> compact trace records"""
    global _ACTIVE
    install()
    from . import mp

    rng = random.Random(item["seed"])
    del _LOG[:]
    _ACTIVE = True
    old = signal.signal(signal.SIGALRM, _alarm)
    signal.setitimer(signal.ITIMER_REAL, GUARD_S)
    out = []
    try:
        try:
            if "path" in item:
                kind = "file"
                try:
                    mp.montepy.read_input(item["path"])
                except _Hang:
                    raise
                except BaseException:  # noqa: BLE001  several test inputs are malformed on purpose
                    pass
            else:
                spec = item["spec"]
                kind = "card:" + item["mode"]
                b = g12.build(spec, TABLES)
                text = g12.layout(b, item["mode"], item["lseed"])
                lines = text.split("\n")
                try:
                    {"cell": mp.cell_from, "surface": mp.surface_from, "data": mp.data_from}[spec["kind"]](lines)
                except _Hang:
                    raise
                except Exception:  # noqa: BLE001  C12's own oracle judges acceptance; here only the trace matters
                    pass
            recs = list(_LOG)
            out = [_compact(r, kind) for r in recs]
            if len(recs) > 40:
                recs = rng.sample(recs, 40)
            out += _run_mutants(rng, recs, item.get("mutants", 1))
        except _Hang:
            out.append({"hang": True})
    finally:
        signal.setitimer(signal.ITIMER_REAL, 0)
        signal.signal(signal.SIGALRM, old)
        del _LOG[:]
        del _CUR[:]
        _ACTIVE = False
    return out


def compare(rec, ans):
    """None when the model's answer agrees with the traced run, else a short reason"""
    if "error" in ans:
        return "driver-error:" + ans["error"]
    if ans["r"] in ("crash", "fuel"):
        return "model-" + ans["r"]
    n = len(rec["toks"])
    if rec["err"] is not None:
        e = rec["err"]
        want_remaining = 0 if e["tok"] == "$end" else n - (e["ntoks"] - 1)
        if ans["r"] != "reject":
            return "impl reports a syntax error, model " + ans["r"]
        if ans["reds"] != rec["reds"][: e["nreds"]]:
            return "reductions before the syntax error differ"
        if ans["remaining"] != want_remaining:
            return f"offending token position differs (impl remaining {want_remaining}, model {ans['remaining']})"
        return None
    if rec["result"] == "accept":
        if ans["r"] != "accept":
            return "impl accepts, model " + ans["r"]
        if ans["reds"] != rec["reds"]:
            return "reduction sequences differ"
        return None
    if rec["result"].startswith("raise:"):
        # a semantic action raised before any syntax error: its trace is a prefix of the model's reductions
        if ans["reds"][: len(rec["reds"])] != rec["reds"]:
            return "reductions before the exception are not a prefix of the model's"
        return None
    # the automaton accepted and the semantic action of the start production returned None (CellParser:
    # `cell -> number_phrase KEYWORD` returns None unless the keyword is LIKE): MontePy turns the None into a
    # ParsingError, the LR machine has accepted
    if ans["r"] != "accept":
        return "impl reached the accept action (tree None, error() never called), model " + ans["r"]
    if ans["reds"] != rec["reds"]:
        return "reduction sequences differ"
    return None


def run_unit(chk, items, tables):
    """called from props/c12.py:run with the card items it generated and the pinned tables"""
    global TABLES
    TABLES = tables
    chk.trusted_base.append(
        "translator plug-in tools/extractors/lr_tables.py: the dumped _lrtable.lr_action / lr_goto / defaulted_states / "
        "_grammar.Productions are what sly.yacc.Parser.parse consults (exercised by U-lr)"
    )
    chk.assumptions.append(
        "LR part (design_notes/LR.md): Model/LR.lean is Parser.parse up to the first syntax error; SLY's panic-mode "
        "recovery and the semantic actions (which may raise or return None) are not modelled; C12LR_sound / C12LR_montepy "
        "prove accepted => derivable, completeness is proved for the parenthesis-free geometry fragment only"
    )
    drv = leanio.Driver(chk, "drv_lr")
    if not drv.ok:
        raise MachineryError("drv_lr does not build: " + drv.log[-400:])
    rng = chk.rng("lr")
    work = []
    for it in items:
        work.append({"spec": it["spec"], "mode": it["mode"], "lseed": it["seed"], "seed": rng.randrange(1 << 30), "mutants": chk.pick(2, 3)})
    cap = chk.pick(20000, 30000)
    if len(work) > cap:
        chk.count("lr:cards-not-traced (sampled down)", len(work) - cap)
        work = rng.sample(work, cap)
    files = sorted(glob.glob(os.path.join(REPO, "tests", "inputs", "*")))
    files = [f for f in files if os.path.isfile(f)]
    for f in files:
        work.append({"path": f, "seed": rng.randrange(1 << 30), "mutants": chk.pick(2, 4)})
    install()
    results = pmap(run_item, work, chunksize=8)
    # distinct (class, token types) streams go to the model once
    keyed = {}
    flat = []
    for wi, recs in enumerate(results):
        for r in recs:
            if r.get("hang"):
                chk.count("lr:skipped:hang")
                continue
            if r["lex"] is not None:
                chk.count("lr:skipped:lex-error")
                continue
            k = (r["p"], tuple(r["toks"]))
            if k not in keyed:
                keyed[k] = len(keyed)
            flat.append((wi, r, keyed[k]))
    reqs = [None] * len(keyed)
    for (p, toks), i in keyed.items():
        reqs[i] = {"op": "parse", "p": p, "toks": list(toks)}
    answers = drv.batch(reqs + [{"op": "coverage"}])
    coverage = answers[-1]
    stats = {}
    bad = []
    for wi, r, ki in flat:
        st = stats.setdefault(r["p"], {"runs": 0, "accepted": 0, "rejected": 0, "raised": 0, "none": 0, "malformed": 0, "prods": set(), "streams": set()})
        st["runs"] += 1
        st["streams"].add(ki)
        st["prods"].update(r["reds"][: r["err"]["nreds"]] if r["err"] else r["reds"])
        if r["kind"].startswith("malformed"):
            st["malformed"] += 1
        if r["err"] is not None:
            st["rejected"] += 1
        elif r["result"] == "accept":
            st["accepted"] += 1
        elif r["result"] == "none":
            st["accepted"] += 1
            st["none"] += 1
        else:
            st["raised"] += 1
        chk.traces_validated += 1
        why = compare(r, answers[ki])
        if why is not None:
            bad.append((wi, r, ki, why))
    # every disagreement is confirmed by re-running its work item in this process before it is reported
    reported = 0
    for wi, r, ki, why in bad[:20]:
        chk.disagreements_checked += 1
        again = run_item(work[wi])
        same = [x for x in again if not x.get("hang") and x["p"] == r["p"] and x["toks"] == r["toks"] and x["kind"] == r["kind"]]
        if not same or all(compare(x, answers[ki]) is None for x in same):
            chk.count("flaky:lr-disagreement-not-reproduced")
            continue
        reported += 1
        case = {k: v for k, v in work[wi].items()}
        chk.broken_obligation(
            "correspondence",
            UNIT,
            {"why": why, "class": r["p"], "kind": r["kind"], "tokens": r["toks"], "impl": {"result": r["result"], "err": r["err"], "reds": r["reds"]}, "model": answers[ki]},
            case,
        )
    unit = {"work_items": len(work), "test_input_files": len(files), "parser_runs": len(flat), "distinct_streams": len(keyed), "disagreements": len(bad), "per_class": {}}
    for p, st in sorted(stats.items()):
        cov = coverage.get(p, {})
        unit["per_class"][p] = {
            "runs": st["runs"],
            "distinct_streams": len(st["streams"]),
            "accepted": st["accepted"],
            "rejected": st["rejected"],
            "raised_in_semantic_action": st["raised"],
            "accepted_but_action_returned_none": st["none"],
            "malformed_streams": st["malformed"],
            "productions_exercised": len(st["prods"]),
            "productions": cov.get("productions"),
            "productions_in_table": cov.get("productions_in_table"),
            "action_cells_exercised": cov.get("cells_hit"),
            "action_cells": cov.get("action_cells"),
        }
        chk.count("lr:runs:" + p, st["runs"])
    chk.units["U-lr"] = unit
    return unit
