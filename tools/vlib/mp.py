"""Import MontePy from the tree under verification (VERIF_REPO, default /repo) and small helpers."""
import os
import sys
import warnings

from .core import REPO, MachineryError

if sys.path[0] != REPO:
    sys.path.insert(0, REPO)
warnings.filterwarnings("ignore")
try:
    import montepy  # noqa: E402
except Exception as e:  # the tree under test does not import: not a verdict
    raise MachineryError(f"cannot import montepy from {REPO}: {e!r}")
if not os.path.realpath(montepy.__file__).startswith(os.path.realpath(REPO)):
    raise MachineryError(f"montepy imported from {montepy.__file__}, expected {REPO}")

from montepy.input_parser.mcnp_input import Input  # noqa: E402
from montepy.input_parser.block_type import BlockType  # noqa: E402


def cell_from(text):
    return montepy.Cell(Input(text.split("\n") if isinstance(text, str) else text, BlockType.CELL))


def surface_from(text):
    return montepy.surfaces.surface_builder.surface_builder(
        Input(text.split("\n") if isinstance(text, str) else text, BlockType.SURFACE)
    )


def data_from(text):
    return montepy.data_inputs.data_parser.parse_data(
        Input(text.split("\n") if isinstance(text, str) else text, BlockType.DATA)
    )


def errname(e):
    return type(e).__name__
