"""Helpers of the C05 check: an independent reader of Fortran/MCNP numbers (exact Fractions), the wire
format of numbers for the Lean driver, token-spelling / padding / value generators.

Nothing here imports MontePy: the reader must stay independent of the code under verification.
"""
import math
import struct
from fractions import Fraction

PINNED_REL_TOL = 1e-9  # the property's text: "the library's own relative tolerance (1e-9)"
DIGITS = "0123456789"
EXP_CLAMP = 5000


# --------------------------------------------------------------------------- independent reader
def read_fortran(word):
    """Value MCNP reads from one word, as an exact Fraction; None if the word is not a number.

    Fortran real editing: [sign] digits [. digits] | [sign] . digits, then optionally an exponent:
    a letter E/e/D/d with an optional sign and digits, or a sign and digits without a letter.
    Written as a hand-rolled scanner (no regular expression, no float()).
    """
    i, n = 0, len(word)
    neg = False
    if i < n and word[i] in "+-":
        neg = word[i] == "-"
        i += 1
    j = i
    while j < n and word[j] in DIGITS:
        j += 1
    ip = word[i:j]
    fp = ""
    if j < n and word[j] == ".":
        k = j + 1
        while k < n and word[k] in DIGITS:
            k += 1
        fp = word[j + 1 : k]
        j = k
    if not ip and not fp:
        return None
    exp = 0
    if j < n:
        if word[j] in "eEdD":
            j += 1
            eneg = False
            if j < n and word[j] in "+-":
                eneg = word[j] == "-"
                j += 1
        elif word[j] in "+-":
            eneg = word[j] == "-"
            j += 1
        else:
            return None
        k = j
        while k < n and word[k] in DIGITS:
            k += 1
        if k == j or k != n:
            return None
        exp = int(word[j:k])
        if eneg:
            exp = -exp
    mant = int((ip + fp) or "0")
    # far outside the doubles: clamp (keeps the reader total and fast; the verdict for such a word cannot change)
    exp = max(-EXP_CLAMP, min(EXP_CLAMP, exp))
    v = Fraction(mant) * Fraction(10) ** (exp - len(fp))
    return -v if neg else v


def first_word(text):
    """The first blank-delimited word of a piece of an input line ('$' ends the data, '&' continues)."""
    t = text.lstrip(" ")
    out = []
    for c in t:
        if c in " \n$&":
            break
        out.append(c)
    return "".join(out)


def to_float(fr):
    """Fraction -> nearest double (inf beyond the range), as float(str) would give for the same decimal."""
    try:
        return fr.numerator / fr.denominator
    except OverflowError:
        return math.inf if fr > 0 else -math.inf


def close_pinned(y, x):
    """The property's comparison: |y - x| within the library's relative tolerance, pinned to 1e-9."""
    return math.isclose(to_float(y), x, rel_tol=PINNED_REL_TOL, abs_tol=0.0)


def rel_err(y, x):
    """exact relative error |y-x| / max(|x|,|y|) as a Fraction (0 when both are 0)."""
    x = Fraction(x)
    m = max(abs(x), abs(y))
    return Fraction(0) if m == 0 else abs(y - x) / m


def in_band(r, width=Fraction(1, 10**6)):
    """Is a relative error within `width` (relative) of the tolerance threshold?  There the double
    arithmetic of math.isclose and the exact arithmetic of the model may legitimately decide differently."""
    t = Fraction(PINNED_REL_TOL)
    return abs(Fraction(r) / t - 1) < width


# --------------------------------------------------------------------------- wire format
def num(x):
    """A Python int/float as [neg, numerator, denominator, is_int] with decimal strings (exact)."""
    if isinstance(x, bool):
        raise TypeError("bool")
    if isinstance(x, int):
        return [x < 0, str(abs(x)), "1", True]
    n, d = abs(x).as_integer_ratio()
    return [math.copysign(1.0, x) < 0, str(n), str(d), False]


def unnum(w):
    if w is None:
        return None
    neg, n, d, is_int = w
    if is_int:
        return -int(n) if neg else int(n)
    v = int(n) / int(d)
    return -v if neg else v


def unrat(w):
    return None if w is None else Fraction(int(w[0]), int(w[1]))


def next_up(x, k=1):
    for _ in range(k):
        x = math.nextafter(x, math.inf)
    return x


def next_down(x, k=1):
    for _ in range(k):
        x = math.nextafter(x, -math.inf)
    return x


# --------------------------------------------------------------------------- generators
def gen_spelling(rng, max_exp=60):
    """A token from the `Real` rule of DESIGN.md 5.2 (plus leading zeros / explicit '+'), structured."""
    sign = rng.choice(["", "", "", "-", "-", "+"])
    zeros = rng.choice(["", "", "", "0", "00", "000"])
    kind = rng.random()
    ipn = rng.choice([1, 1, 1, 2, 3, 5, 8])
    ip = str(rng.randint(1, 9)) + "".join(rng.choice(DIGITS) for _ in range(ipn - 1))
    fpn = rng.choice([0, 1, 1, 2, 3, 4, 6, 9, 12])
    fp = "".join(rng.choice(DIGITS) for _ in range(fpn))
    if kind < 0.25:  # integer-like
        body = zeros + ip
        dotted = False
    elif kind < 0.30:  # "5."
        body = zeros + ip + "."
        dotted = True
    elif kind < 0.36:  # ".5"
        body = "." + (fp or "5")
        dotted = True
    elif kind < 0.42:  # "0.05"
        body = zeros + "0." + (fp or "0")
        dotted = True
    else:
        body = zeros + ip + "." + fp
        dotted = True
    r = rng.random()
    if r < 0.45:
        ex = ""
    else:
        e = rng.choice([0, 1, 2, 3, 5, 7, 10, 12, 19, 23, 30, max_exp])
        ez = rng.choice(["", "", "0", "00"]) if e < 100 else ""
        es = rng.choice(["", "+", "-", "-"])
        if r < 0.8:
            ex = rng.choice("eE") + es + ez + str(e)
        else:
            ex = (es or "-") + ez + str(e)  # Fortran: no letter
    return sign + body + ex


PADDINGS = [
    None,
    None,
    [["s", 1]],
    [["s", 1]],
    [["s", 2]],
    [["s", 6]],
    [["n"]],
    [["s", 1], ["n"]],
    [["s", 3], ["n"], ["s", 5]],
    [["s", 1], ["s", 1]],
    [["s", 1], ["c", "$ a comment"], ["n"]],
    [["s", 2], ["c", "$ 1.5 2"], ["n"], ["s", 5]],
    [["c", "$ direct"], ["n"]],
    [["s", 1], ["n"], ["c", "c a line"], ["n"], ["s", 5]],
    [["n"], ["c", "C 3 4 5"], ["n"]],
    [["s", 0]],
    [],
]


def gen_value(rng, og=None, precision_hint=None):
    """A finite new value (DESIGN.md 5.5): integers, halves, decimals with 1-17 significant digits over
    1e-300..1e300, negatives, +-0.0, integral floats, values one ulp from a rounding tie, values near `og`."""
    r = rng.random()
    sign = -1.0 if rng.random() < 0.3 else 1.0
    if r < 0.08:
        return sign * float(rng.choice([0, 1, 2, 3, 5, 10, 100, 12345, 10**6, 2**53, 10**15, 10**22]))
    if r < 0.12:
        return rng.choice([0.0, -0.0])
    if r < 0.20:
        return sign * (rng.randint(0, 2000) + 0.5) * 10.0 ** rng.choice([0, 0, -1, -2, -3, 1, 2])
    if r < 0.55:
        nd = rng.randint(1, 17)
        m = rng.randint(10 ** (nd - 1), 10**nd - 1)
        e = rng.choice([0, 0, 0, 1, 2, 3, -1, -2, -3, -4, -5, -7, 5, 8, 12, 15, 16, 17, 20, 22, 23, -10, -16, -20, 30, -30])
        if rng.random() < 0.15:
            e = rng.randint(-300, 300)
        try:
            return sign * float(f"{m}e{e - nd + 1}")
        except OverflowError:
            return sign * 1.0
    if r < 0.63:
        return sign * 10.0 ** rng.randint(-300, 300)
    if r < 0.73:
        # one ulp from a tie at some decimal place
        p = precision_hint if precision_hint is not None and rng.random() < 0.6 else rng.randint(0, 8)
        base = (rng.randint(0, 99999) + 0.5) / 10.0**p
        return sign * rng.choice([base, next_up(base), next_down(base), next_up(base, 3), next_down(base, 2)])
    if r < 0.80:
        k = rng.choice([1, 2, 3, 7, 10, 99, 1000, 123456])
        return sign * k * (1 + rng.choice([1e-10, -1e-10, 1e-8, -1e-8, 1e-12, 3e-16, 1e-6, -1e-6]))
    if r < 0.90 and og not in (None, 0.0) and math.isfinite(og):
        return og * (1 + rng.choice([0.0, 1e-10, -1e-10, 1e-8, -1e-8, 1e-11, 1e-7, 1e-3, -0.5, 1.0]))
    if r < 0.95:
        return sign * rng.random() * 10.0 ** rng.randint(-12, 12)
    if r < 0.98:
        # any finite double by bit pattern (exponent field below the infinities)
        bits = rng.getrandbits(63) % 0x7FE0000000000000
        return sign * struct.unpack("<d", struct.pack("<Q", bits))[0]
    return sign * rng.uniform(0, 1) * 10.0 ** rng.randint(-300, 300)

FIXED_SPELLINGS = [
    "1", "0", "12", "007", "+3", "-4", "1.", "-1.", ".5", "-.5", "+.25", "0.5", "1.0", "1.5", "-1.5", "+1.5", "001.5",
    "1.50", "3.14159", "0.001", "100.25", "1e3", "1E3", "1e+3", "1e-3", "1.e3", "1.5e3", "-1.5e3", "+1.5e3", "1.5E+03",
    "1.5e003", "1.5e-03", "0.15e1", "001.5e3", "1.5-3", "1.5+3", "-1.5-3", "1.602-19", "1.602-0019", "6.02+23",
    "1-5", "1+5", ".5e3", "-.5e-3", ".5-3", "1.23456789012", "12345678.9", "1e0", "1.0e-2", "2.5E-10", "9.99", "0.0",
    "00", "-0", "0.", "1.000000000000000000000", "1e00", "1.5e+0", "1.5e30", "15.e-1",
]

FIXED_VALUES = (
    [0.0, -0.0, 1.0, -1.0, 2.0, 10.0, 100.0, 1e6, 0.5, 0.25, 2.75, 3.25, -2.75, 1 / 3, 2 / 3, -1 / 3, 0.1, 0.2, 0.3]
    + [1e-7, 1e-5, 1e-4, 9.9999e-5, 1e-10, 1e-20, 1e-300, 5e-324 * 2**60, 1e7, 1e15, 1e16, 1e17, 1e20, 1e22, 1e23, 1e100, 1e300]
    + [1234.5678, 0.00012345678, 123456789.123, 9.995, 9.9995, 99.5, 0.5000000001, 0.05, 0.15, 0.25, 0.35, 1.45, 2.5, 3.5]
    + [2.9999999999, -2.9999999999, 3.0000000001, 2.99999, 1.00000001, 1.000000001, 1.0000000001, 0.99999999995]
    + [1.5, 1.5000000001, 1.50000001, 1500.0, 1500.0000001, 0.0015, 1.602e-19, 6.02e23, 6.02214076e23, -6.02214076e23]
    + [math.pi, -math.e, math.sqrt(2) * 1e10, math.sqrt(3) * 1e-10, 2**-30, 2**40 + 0.5, 123456789012345678.0, 0.1 + 0.2]
)
