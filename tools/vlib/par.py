"""Process-parallel map with deterministic (index-ordered) results, and list shrinking."""
import multiprocessing as mp
import os

_FN = None


def _call(args):
    i, item = args
    return i, _FN(item)


def pmap(fn, items, workers=None, chunksize=8):
    """Results in input order, independent of the number of workers."""
    global _FN
    items = list(items)
    if workers is None:
        workers = min(14, os.cpu_count() or 2)
    if workers <= 1 or len(items) < 32:
        return [fn(x) for x in items]
    _FN = fn
    ctx = mp.get_context("fork")
    with ctx.Pool(workers) as pool:
        out = pool.map(_call, list(enumerate(items)), chunksize=chunksize)
    out.sort(key=lambda t: t[0])
    return [r for _, r in out]


def shrink_list(items, still_fails, max_rounds=6):
    """Greedy delta debugging: drop chunks, then single elements, while `still_fails(items)`."""
    items = list(items)
    n = 2
    rounds = 0
    while len(items) >= 1 and rounds < 200:
        rounds += 1
        chunk = max(1, len(items) // n)
        removed = False
        i = 0
        while i < len(items):
            cand = items[:i] + items[i + chunk :]
            if cand != items and still_fails(cand):
                items = cand
                removed = True
            else:
                i += chunk
        if not removed:
            if chunk == 1:
                break
            n = min(len(items), n * 2) or 1
    return items
