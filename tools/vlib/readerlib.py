"""Shared by the checks C20 and C11: running the real reader on materialised files, serialising the object
model, generating logical problems, laying them out, distributing them over trees of files.

Nothing here decides a verdict; the oracles live in tools/props/c20.py and c11.py.
"""

import os
import shutil
import signal
import tempfile
import warnings

from . import mp  # imports montepy from VERIF_REPO
from .core import canon

montepy = mp.montepy

RUNAWAY_ITEMS = 20000  # no generated case has more than a few hundred inputs: a reader that yields this many loops
HANG_S = 30  # generous: the machine may be heavily loaded
KNOWN_ERRS = {"ParsingError", "MalformedInputError", "UnsupportedFeature", "FileNotFoundError"}


class _Hang(Exception):
    pass


def _alarm(*a):
    raise _Hang()


# --------------------------------------------------------------------------- materialising a case
class Sandbox:
    """files (relative path -> latin-1 text) under a fresh temp root; the process works from `cwd`."""

    def __init__(self, files, cwd="work"):
        self.files = files
        self.cwd_rel = cwd

    def __enter__(self):
        self.root = os.path.realpath(tempfile.mkdtemp(prefix="verif_c20_"))
        for rel, text in self.files.items():
            p = os.path.join(self.root, rel)
            os.makedirs(os.path.dirname(p), exist_ok=True)
            with open(p, "wb") as fh:
                fh.write(text.encode("latin-1"))
        self.cwd = os.path.join(self.root, self.cwd_rel)
        os.makedirs(self.cwd, exist_ok=True)
        self.old = os.getcwd()
        os.chdir(self.cwd)
        return self

    def __exit__(self, *a):
        os.chdir(self.old)
        shutil.rmtree(self.root, ignore_errors=True)

    def given(self, rel, absolute):
        """the path string handed to MontePy for the file `rel`"""
        p = os.path.join(self.root, rel)
        return p if absolute else os.path.relpath(p, self.cwd)

    def symbolic(self, path):
        """replace the temp root by /ROOT so that observations do not depend on the temp name"""
        return path.replace(self.root, "/ROOT")


def model_paths(case):
    """(main path, files) as the model sees them: the same strings MontePy gets, with the temp root -> /ROOT.
    A file at root-relative path r is what `join(dirname(main as given), name)` names, name = r relative to the
    directory of the top-level file."""
    cwd = case.get("cwd", "work")
    main_abs = os.path.join("/ROOT", case["main"])
    given = main_abs if case.get("abs") else os.path.relpath(main_abs, os.path.normpath(os.path.join("/ROOT", cwd)))
    d = os.path.dirname(given)
    topdir = os.path.dirname(case["main"])
    files = {}
    for r, text in case["files"].items():
        name = os.path.relpath(r, topdir) if topdir else r
        files[os.path.join(d, name) if d else name] = text
    return given, files


def model_case(case):
    main, files = model_paths(case)
    return {"op": "read_all", "limit": case.get("limit", 128), "main": main, "files": files, "fuel": 100000}


def version_of(limit):
    return (6, 2, 0) if limit == 128 else (6, 1, 0)


def errclass(e):
    n = type(e).__name__
    return n if n in KNOWN_ERRS else "leak:" + n


# --------------------------------------------------------------------------- the real syntax reader
def impl_syntax(case):
    """Run input_syntax_reader.read_input_syntax on the case; same JSON shape as the Lean driver's `observe`."""
    from montepy.input_parser import input_file as input_file_mod
    from montepy.input_parser import input_syntax_reader as isr
    from montepy.input_parser.input_file import MCNP_InputFile
    from montepy.input_parser import mcnp_input

    items, opened, err = [], [], None
    nwarn = 0
    with Sandbox(case["files"], case.get("cwd", "work")) as sb:
        real_open = open

        def rec_open(path, *a, **k):
            opened.append(sb.symbolic(str(path)))
            return real_open(path, *a, **k)

        input_file_mod.open = rec_open
        old = signal.signal(signal.SIGALRM, _alarm)
        try:
            with warnings.catch_warnings(record=True) as wlist:
                warnings.simplefilter("always")
                signal.setitimer(signal.ITIMER_REAL, HANG_S)
                try:
                    given = sb.given(case["main"], case.get("abs", False))
                    for it in isr.read_input_syntax(MCNP_InputFile(given), version_of(case.get("limit", 128))):
                        if len(items) > RUNAWAY_ITEMS:
                            raise _Hang()
                        if it is None:
                            items.append({"k": "none"})
                        elif isinstance(it, mcnp_input.Message):
                            items.append({"k": "message", "raw": list(it.input_lines), "lines": list(it.lines)})
                        elif isinstance(it, mcnp_input.Title):
                            items.append({"k": "title", "line": it.input_lines[0]})
                        else:
                            items.append({"k": "input", "bt": it.block_type.value, "lines": list(it.input_lines)})
                except _Hang:
                    err = "HANG"
                    del items[20:]  # what an endless run yielded is of no interest beyond its beginning
                except Exception as e:  # noqa: BLE001
                    err = errclass(e)
                finally:
                    signal.setitimer(signal.ITIMER_REAL, 0)
                nwarn = sum(1 for w in wlist if issubclass(w.category, montepy.errors.LineOverRunWarning))
        finally:
            signal.signal(signal.SIGALRM, old)
            del input_file_mod.open
    return {"items": items, "opened": opened, "warnings": nwarn, "err": err}


# --------------------------------------------------------------------------- serialising the object model
def _num(x):
    if isinstance(x, bool):
        return x
    if isinstance(x, int):
        return x
    if isinstance(x, float):
        return ["f"] + list(x.as_integer_ratio()) if x == x and abs(x) != float("inf") else ["f", repr(x)]
    return x


def flat(node):
    """semantic leaves of a syntax tree in order: values (strings lower-cased), no padding, no comments"""
    from montepy.input_parser import syntax_node as sn
    from montepy.input_parser.mcnp_input import Jump

    out = []
    if node is None:
        return out
    if isinstance(node, (sn.PaddingNode, sn.CommentNode)):
        return out
    if isinstance(node, sn.ValueNode):
        v = node.value
        if isinstance(v, str):
            out.append(v.lower())
        elif isinstance(v, Jump):
            out.append("<jump>")
        elif v is None:
            out.append(None)
        else:
            out.append(_num(v))
        return out
    if isinstance(node, sn.ParticleNode):
        out.append(":" + ",".join(sorted(str(p).lower() for p in node.particles)))
        return out
    if isinstance(node, sn.IsotopesNode):
        for iso, conc in node.nodes:
            out += flat(iso) + flat(conc)
        return out
    if isinstance(node, sn.ShortcutNode):
        for n in node.nodes:
            out += flat(n)
        return out
    if isinstance(node, sn.ListNode):
        for n in node.nodes:
            out += flat(n)
        return out
    if isinstance(node, (sn.SyntaxNode, sn.GeometryTree, sn.ParametersNode)):
        for v in node.nodes.values():
            out += flat(v)
        return out
    if isinstance(node, sn.ClassifierNode):
        for n in node.nodes:
            out += flat(n)
        return out
    if isinstance(node, (list, tuple)):
        for n in node:
            out += flat(n)
        return out
    if isinstance(node, str):
        s = node.strip().lower()
        return [s] if s else []
    return ["<" + type(node).__name__ + ">"]


def geom(g):
    """geometry as an operator tree over (divider number, side, is_cell)"""
    from montepy.surfaces.half_space import UnitHalfSpace

    if g is None:
        return None
    if isinstance(g, UnitHalfSpace):
        d = g.divider
        return ["leaf", getattr(d, "number", d), bool(g.side), bool(g.is_cell)]
    return [str(g.operator), geom(g.left), geom(g.right)]


def _try(f, default="<err>"):
    try:
        return f()
    except Exception as e:  # noqa: BLE001
        return f"<{type(e).__name__}>"


def serialize_problem(p):
    """numbers, types, values, geometry, links, data inputs: what C11/C20 mean by "the problem read"."""
    from montepy.data_inputs import material, transform, thermal_scattering

    cells = []
    for c in p.cells:
        imp = {}
        for part in sorted(p.mode.particles, key=str):
            imp[str(part)] = _try(lambda: _num(c.importance[part]))
        cells.append(
            {
                "number": c.number,
                "material": c.material.number if c.material is not None else 0,
                "density": _try(lambda: [_num(c._density_node.value), bool(c.is_atom_dens)] if c.material is not None else None),
                "geometry": _try(lambda: geom(c.geometry)),
                "surfaces": _try(lambda: [s.number for s in c.surfaces]),
                "complements": _try(lambda: [x.number for x in c.complements]),
                "importance": imp,
                "volume": _try(lambda: _num(c.volume)),
                "universe": _try(lambda: c.universe.number),
                "fill": _try(lambda: c.fill.universe.number if c.fill.universe is not None else None),
                "lattice": _try(lambda: str(c.lattice) if c.lattice is not None else None),
                "tokens": _try(lambda: flat(c._tree)),
            }
        )
    surfaces = []
    for s in p.surfaces:
        surfaces.append(
            {
                "number": s.number,
                "type": str(s.surface_type),
                "constants": _try(lambda: [_num(float(x)) for x in s.surface_constants]),
                "transform": _try(lambda: s.transform.number if s.transform is not None else None),
                "periodic": _try(lambda: s.periodic_surface.number if s.periodic_surface is not None else None),
                "reflecting": bool(s.is_reflecting),
                "white": bool(s.is_white_boundary),
                "class": type(s).__name__,
            }
        )
    data = []
    for d in p.data_inputs:
        entry = {"class": type(d).__name__, "tokens": _try(lambda: flat(d._tree))}
        if isinstance(d, material.Material):
            entry["number"] = d.number
            entry["thermal"] = _try(lambda: sorted(d.thermal_scattering.thermal_scattering_laws) if d.thermal_scattering else None)
        if isinstance(d, transform.Transform):
            entry["number"] = d.number
        data.append(entry)
    return {
        "title": p.title.title if p.title is not None else None,
        "message": list(p.message.lines) if p.message is not None else None,
        "mode": sorted(str(x) for x in p.mode.particles),
        "cells": cells,
        "surfaces": surfaces,
        "data": data,
        "materials": [m.number for m in p.materials],
        "transforms": [t.number for t in p.transforms],
        "universes": sorted(u.number for u in p.universes),
    }


def impl_problem(case, write_back=False):
    """montepy.read_input on the case from its working directory -> {'model': ..} or {'err': ..};
    with write_back: also write the problem to a fresh file and read that back."""
    res = {}
    with Sandbox(case["files"], case.get("cwd", "work")) as sb:
        old = signal.signal(signal.SIGALRM, _alarm)
        try:
            with warnings.catch_warnings():
                warnings.simplefilter("ignore")
                signal.setitimer(signal.ITIMER_REAL, HANG_S)
                try:
                    given = sb.given(case["main"], case.get("abs", False))
                    p = montepy.read_input(given, version_of(case.get("limit", 128)))
                    res["model"] = serialize_problem(p)
                    if write_back:
                        out = os.path.join(sb.root, "written_back.i")
                        try:
                            p.write_to_file(out)
                            with open(out, "rb") as fh:
                                res["written"] = fh.read().decode("latin-1")
                            res["reread"] = serialize_problem(montepy.read_input(out, version_of(case.get("limit", 128))))
                        except _Hang:
                            raise
                        except Exception as e:  # noqa: BLE001
                            res["write_err"] = errclass(e)
                except _Hang:
                    res["err"] = "HANG"
                except Exception as e:  # noqa: BLE001
                    res["err"] = errclass(e)
                    res["msg"] = str(e)[:300]
                finally:
                    signal.setitimer(signal.ITIMER_REAL, 0)
        finally:
            signal.signal(signal.SIGALRM, old)
    return res


# --------------------------------------------------------------------------- words of an input (Python mirror of Spec.Text, used only to *classify* failures)
def is_comment_line(line):
    body = line.lstrip(" ")
    ind = len(line) - len(body)
    return ind < 5 and body[:1] in ("c", "C") and (len(body) == 1 or body[1] == " ")


def words_of(lines):
    out = []
    for l in lines:
        l = l.rstrip("\n")
        if is_comment_line(l):
            continue
        ws = l.split("$")[0].split()
        if ws and ws[-1] == "&":
            ws = ws[:-1]
        out += ws
    return out


# --------------------------------------------------------------------------- logical problems
# an input is a list of atoms: ("w", text) a word; ("g", text) punctuation that may be glued to its
# neighbours; ("eq",) a key/value separator ("=" or blank); ("t", text) free text that is never re-cased.
def W(*texts):
    return [("w", t) for t in texts]


NUM_SPELL = ["1", "2", "0.5", "1.5", "2.0", "3.25", "10", ".5", "1.", "1.5e-2", "2.5E+1", "1.5-2", "+3", "4e0", "0.25", "7", "12.5"]
DATA_POOL = [
    lambda r: W("nps", str(r.randint(1, 9) * 100)),
    lambda r: W("ctme", str(r.randint(1, 60))),
    lambda r: W("print"),
    lambda r: W("print", "10", "20", "110"),
    lambda r: W("sdef", "pos") + [("eq",)] + W("0", "0", "0", "erg") + [("eq",)] + W(r.choice(["1.5", "2", "14.1"])),
    lambda r: W("ksrc", "0", "0", "0"),
    lambda r: W("kcode", "1000", "1.0", "10", "50"),
    lambda r: W("phys:n", "20", "0"),
    lambda r: W("cut:n", "j", "0"),
    lambda r: W("prdmp", "1", "2", "3"),
    lambda r: W("dbcn", "1", "2"),
    lambda r: W("lost", "10", "10"),
    lambda r: W("idum", "1", "2", "3"),
    lambda r: W("rdum", "1.5", "2"),
    lambda r: W("void"),
    lambda r: W("totnu"),
    lambda r: W("si1", "0", "1", "2"),
    lambda r: W("sp1", "0", "1", "1"),
    lambda r: W("e4", "1", "2", "3"),
    lambda r: W("e14", "1", "8i", "10"),
    lambda r: W("bbrem", "1", "1", "46i", "10", "1"),
    lambda r: W("thtme", "0"),
]
SURF_TYPES = [
    ("so", 1), ("px", 1), ("py", 1), ("pz", 1), ("cz", 1), ("cx", 1), ("c/z", 3), ("c/x", 3), ("s", 4), ("sx", 2), ("sz", 2),
    ("p", 4), ("kz", 2), ("k/x", 4), ("rpp", 6), ("sph", 4), ("rcc", 7), ("sq", 10), ("gq", 10), ("tz", 6), ("box", 12),
]
ZAIDS = ["1001.80c", "8016.80c", "92235.80c", "92238.80c", "26056.80c", "6000.80c", "13027.80c"]


def gen_problem(rng, rich=True, ncells=None):
    """A well-formed logical problem.  rich=False: intersections only, no complements (the write path of
    parenthesised geometry is C01/C02's subject, kept out of C20)."""
    nsurf = rng.randint(2, 7)
    ncell = ncells or rng.randint(2, 7)
    snums = rng.sample(range(1, 60), nsurf)
    cnums = rng.sample(range(1, 90), ncell)
    two = rng.random() < 0.35
    particles = ["n", "p"] if two else ["n"]
    nmat = rng.randint(0, 3)
    mnums = rng.sample(range(1, 30), nmat)
    ntr = rng.randint(0, 2) if rich else 0
    tnums = rng.sample(range(1, 20), ntr)
    unis = rng.sample(range(1, 9), rng.randint(0, 2)) if rich else []
    imp_in_data = rng.random() < 0.25
    cells, filled = [], False
    for i, cn in enumerate(cnums):
        atoms = W(str(cn))
        if mnums and rng.random() < 0.6:
            atoms += W(str(rng.choice(mnums)), rng.choice(["-2.5", "0.05", "-1", "1.0e-2", "-7.85"]))
        else:
            atoms += W("0")
        atoms += gen_geometry(rng, snums, cnums[:i] if rich else [], 2 if rich else 0)
        if not imp_in_data:
            last = i == ncell - 1
            if two and rng.random() < 0.5:
                atoms += W("imp:n,p") + [("eq",)] + W("0" if last else str(rng.randint(1, 3)))
            else:
                for part in particles:
                    atoms += W("imp:" + part) + [("eq",)] + W("0" if last else str(rng.randint(1, 3)))
        if rng.random() < 0.3:
            atoms += W("vol") + [("eq",)] + W(rng.choice(NUM_SPELL[:7]))
        if unis and rng.random() < 0.4:
            atoms += W("u") + [("eq",)] + W(str(unis[0]))
        elif unis and not filled and rng.random() < 0.3:
            atoms += W("fill") + [("eq",)] + W(str(unis[0]))
            filled = True
        if rich and rng.random() < 0.15:
            atoms += W("tmp") + [("eq",)] + W("2.5e-8")
        cells.append(atoms)
    if unis and not any(("w", "u") in c for c in cells):
        cells[0] += W("u") + [("eq",)] + W(str(unis[0]))
    surfaces = []
    for sn in snums:
        typ, ar = rng.choice(SURF_TYPES)
        atoms = []
        first = str(sn)
        if rich and rng.random() < 0.1:
            first = rng.choice(["*", "+"]) + first
        atoms += W(first)
        if tnums and rng.random() < 0.3:
            atoms += W(str(rng.choice(tnums)))
        atoms += W(typ)
        consts = [rng.choice(NUM_SPELL) for _ in range(ar)]
        if typ in ("cz", "cx", "so", "sph", "rcc", "s", "sx", "sz", "c/z", "c/x"):
            consts[-1] = rng.choice(["1", "2.5", "0.5", "10"])
        atoms += W(*consts)
        surfaces.append(atoms)
    data = [W("mode", *particles)]
    for mn in mnums:
        atoms = W("m" + str(mn))
        for z in rng.sample(ZAIDS, rng.randint(1, 3)):
            atoms += W(z, rng.choice(["1", "0.5", "2", "0.95", "5.85"]))
        data.append(atoms)
    for tn in tnums:
        atoms = W(rng.choice(["tr", "*tr"]) + str(tn), *[rng.choice(["0", "1", "-2.5", "3"]) for _ in range(3)])
        data.append(atoms)
    if imp_in_data:
        for part in particles:
            vals = [str(rng.randint(1, 3)) for _ in range(ncell - 1)] + ["0"]
            if ncell >= 4 and rng.random() < 0.5:
                vals = [vals[0], f"{ncell - 2}r", "0"]
            data.append(W("imp:" + part, *vals))
    seen = set()
    for _ in range(rng.randint(0, 5)):
        atoms = rng.choice(DATA_POOL)(rng)
        key = atoms[0][1]
        if key in seen:
            continue
        seen.add(key)
        if key in ("ksrc", "kcode") and "sdef" in seen or key == "sdef" and ("ksrc" in seen or "kcode" in seen):
            pass
        data.append(atoms)
    rng.shuffle(data)
    title = rng.choice(["verification problem", "Title with C and $ and & inside", "c looks like a comment", "1 0 -1 imp:n=1", "  indented title", "T"])
    message = None
    if rng.random() < 0.3:
        message = [rng.choice(["outp=x.o", "datapath=/tmp xsdir=xs", ""]), rng.choice(["  continued message", "second line"])][: rng.randint(1, 2)]
    return {"title": title, "message": message, "cells": cells, "surfaces": surfaces, "data": data}


def gen_geometry(rng, snums, earlier_cells, depth):
    """atoms of a cell geometry (since fix 453a5e4 a '#' may stand anywhere but at the very start of a line)"""
    state = {"first": True}

    def leaf():
        if earlier_cells and rng.random() < 0.15:
            return W("#" + str(rng.choice(earlier_cells)))
        state["first"] = False
        return W(rng.choice(["", "-", "+"]) + str(rng.choice(snums)))

    def expr(d):
        if d == 0 or rng.random() < 0.35:
            out = leaf()
            for _ in range(rng.randint(0, 2)):
                out += leaf()
            return out
        k = rng.random()
        if k < 0.4:
            return expr(d - 1) + [("g", ":")] + expr(d - 1)
        if k < 0.8:
            return [("g", "(")] + expr(d - 1) + [("g", ")")] + (leaf() if rng.random() < 0.5 else [])
        return leaf() + [("g", "(")] + expr(d - 1) + [("g", ":")] + expr(d - 1) + [("g", ")")]

    return expr(depth)


# --------------------------------------------------------------------------- from atoms to words
def recase(rng, text, mode):
    if mode == 0:
        return text
    if mode == 1:
        return text.upper()
    if mode == 2:
        return text.lower()
    return "".join(ch.upper() if rng.random() < 0.5 else ch.lower() for ch in text)


def realise_words(rng, atoms, style):
    """atoms -> blank-separated words.  style: {'eq': 0 glued '=', 1 ' = ', 2 blank, 3 mixed; 'glue': p; 'case': 0..3}"""
    words = []
    glue_next = False
    for idx, a in enumerate(atoms):
        if a[0] == "eq":
            s = style["eq"] if style["eq"] < 3 else rng.randint(0, 2)
            if s == 0:
                words[-1] = words[-1] + "="
                glue_next = True
            elif s == 1:
                words.append("=")
                glue_next = False
            else:
                glue_next = False
            continue
        if a[0] == "t":
            words.append(a[1])  # free text: one "word" that may contain blanks; laid out on one line
            glue_next = False
            continue
        text = a[1] if a[0] == "g" else recase(rng, a[1], style["case"])
        if a[0] == "g":
            prev = atoms[idx - 1] if idx else None
            can_glue_prev = bool(words) and prev is not None and prev[0] != "eq" and (
                a[1] in (")", ":") or (a[1] == "(" and prev[0] == "g" and prev[1] in ("(", ":"))
            )
            if can_glue_prev and rng.random() < style["glue"]:
                words[-1] = words[-1] + text
            else:
                words.append(text)
            glue_next = a[1] in ("(", ":") and rng.random() < style["glue"]
            continue
        if glue_next and words:
            words[-1] = words[-1] + text
        else:
            words.append(text)
        glue_next = False
    return words


JUNK_LINES = ["c MCNP ignores what follows the blank line that ends the data block", "nps 77", "this is not MCNP input at all",
              "# 1 2 3", "read file=nowhere.i", "1 0 -1 &", "", "99 0 -1 imp:n=1", "\tx $ y", "m1 1001.80c"]
COMMENT_TEXTS = ["", "a comment", "1 0 -1", "imp:n=1", "text with & inside", "ends with &", "$ dollars $", "(paren) = sign", "read file=nothing.i", "C c C"]


def gen_layout(rng, words, limit, feats):
    """a Spec.InputLayout for `words` whose rendering keeps every line within `limit` - 1 columns.
    feats: set of enabled features among blanks, newline, amp, dollar, comments, lead, trail, pre."""
    lead = rng.randint(0, 4) if "lead" in feats and rng.random() < 0.4 else 0
    pre = []
    if "pre" in feats and rng.random() < 0.25:
        pre = [gen_comment(rng) for _ in range(rng.randint(1, 2))]
    gaps = []
    col = lead + len(words[0])
    maxw = limit - 1
    for w in words[1:]:
        free_text = " " in w
        choices = ["blanks"]
        if not free_text:
            for f in ("newline", "amp", "dollar", "comments"):
                if f in feats:
                    choices.append(f)
        k = rng.choice(choices) if rng.random() < 0.45 else "blanks"
        nb = rng.randint(0, 11) if "blanks" in feats and rng.random() < 0.3 else 0
        if k == "blanks" and col + nb + 1 + len(w) > maxw:
            nb = 0
            if col + 1 + len(w) > maxw:
                k = "newline"
        if k == "blanks":
            gaps.append({"k": "blanks", "n": nb})
            col += nb + 1 + len(w)
            continue
        n = rng.randint(0, 7)
        if k == "amp":
            pre_b = rng.randint(0, 2)
            t = rng.randint(0, 3) if "trail" in feats else 0
            n = rng.randint(0, 8)
            if n < 5 and (w.startswith("#") or w.lower() == "c"):
                n = 5 + n  # a line must not begin with '#' in columns 1-5 (vertical format) nor with a lone 'c' (comment)
            if col + pre_b + 2 + t > maxw:
                k = "newline"
            else:
                # layout choices compose: C comment lines may stand between the '&' line and its continuation,
                # whatever the indentation of the continuation (0-8 blanks)
                cs = [gen_comment(rng) for _ in range(rng.randint(1, 2))] if "comments" in feats and rng.random() < 0.4 else []
                gaps.append({"k": "amp", "pre": pre_b, "t": t, "cs": cs, "n": n})
                col = n + len(w)
                continue
        if k == "dollar":
            text = rng.choice(COMMENT_TEXTS)
            pre_b = rng.randint(0, 2)
            if col + pre_b + 2 + len(text) > maxw:
                k = "newline"
            else:
                gaps.append({"k": "dollar", "pre": pre_b, "text": text, "n": n})
                col = 5 + n + len(w)
                continue
        if k == "comments":
            gaps.append({"k": "comments", "cs": [gen_comment(rng) for _ in range(rng.randint(1, 2))], "n": n})
            col = 5 + n + len(w)
            continue
        gaps.append({"k": "newline", "n": n})
        col = 5 + n + len(w)
    trail = rng.randint(1, 4) if "trail" in feats and rng.random() < 0.2 else 0
    td = None
    if "dollar" in feats and rng.random() < 0.15:
        text = rng.choice(COMMENT_TEXTS)
        if col + trail + 2 + len(text) <= maxw:
            td = text
    if col + trail > maxw:
        trail = 0
    return {"words": words, "gaps": gaps, "pre": pre, "lead": lead, "trail": trail, "trailDollar": td}


def gen_comment(rng):
    return {"ind": rng.randint(0, 4) if rng.random() < 0.3 else 0, "text": rng.choice(COMMENT_TEXTS)}


def render_py(layout):
    """Python mirror of Spec.renderInput (cross-checked against the Lean driver's `render` in C11)."""
    def cline(c):
        return " " * c["ind"] + ("c" if c["text"] == "" else "c " + c["text"])

    lines = [cline(c) for c in layout["pre"]]
    ws = layout["words"]
    cur = " " * layout["lead"]
    gaps = list(layout["gaps"])
    for i, w in enumerate(ws):
        cur += w
        if i == len(ws) - 1:
            cur += " " * layout["trail"]
            if layout["trailDollar"] is not None:
                cur += " $" + layout["trailDollar"]
            lines.append(cur)
            break
        g = gaps[i] if i < len(gaps) else {"k": "blanks", "n": 0}
        if g["k"] == "blanks":
            cur += " " * (g["n"] + 1)
        elif g["k"] == "newline":
            lines.append(cur)
            cur = " " * (5 + g["n"])
        elif g["k"] == "amp":
            lines.append(cur + " " * (g["pre"] + 1) + "&" + " " * g["t"])
            lines += [cline(c) for c in g.get("cs", [])]
            cur = " " * g["n"]
        elif g["k"] == "dollar":
            lines.append(cur + " " * (g["pre"] + 1) + "$" + g["text"])
            cur = " " * (5 + g["n"])
        elif g["k"] == "comments":
            lines.append(cur)
            lines += [cline(c) for c in g["cs"]]
            cur = " " * (5 + g["n"])
    return lines


def tabify(rng, line):
    """replace runs of blanks by tabs where `expandtabs(8)` gives the line back (and never inside a comment text)"""
    if "$" in line or is_comment_line(line) or rng.random() < 0.5:
        return line
    out = []
    i = 0
    n = len(line)
    while i < n:
        if line[i] == " ":
            j = i
            while j < n and line[j] == " ":
                j += 1
            # blanks i..j-1; a tab placed at column i reaches the next multiple of 8
            nxt = (i // 8 + 1) * 8
            if nxt <= j and j < n and rng.random() < 0.6:
                cand = "".join(out) + "\t" + " " * (j - nxt) + line[j:]
                if cand.expandtabs(8) == line:
                    out.append("\t" + " " * (j - nxt))
                    i = j
                    continue
            out.append(line[i:j])
            i = j
        else:
            out.append(line[i])
            i += 1
    res = "".join(out)
    return res if res.expandtabs(8) == line else line


def assemble(rng, prob_title, message, blocks_lines, phys):
    """lines of the three blocks -> bytes of a file.  phys: {'crlf','final_blank','tabs','blank_ws','junk'}"""
    lines = []
    if message is not None:
        lines.append("message: " + message[0])
        lines += message[1:]
        lines.append("")
    lines.append(prob_title)
    for bi, bl in enumerate(blocks_lines):
        body = [tabify(rng, l) for l in bl] if phys.get("tabs") else list(bl)
        lines += body
        if bi < 2:
            lines.append(" " * rng.randint(1, 6) if phys.get("blank_ws") and rng.random() < 0.5 else "")
    if phys.get("final_blank"):
        lines.append("")
        if phys.get("junk"):
            # MCNP ignores whatever follows the blank line that ends the data block: anything may stand there
            lines += rng.sample(JUNK_LINES, rng.randint(1, 4))
    eol = "\r\n" if phys.get("crlf") else "\n"
    text = eol.join(lines) + eol
    if phys.get("no_final_eol"):
        text = text[: -len(eol)]
    return text


def hash_case(case):
    return canon(case)
