"""Independent Python reader of MCNP numeric lists with shortcuts (MCNP 6.2 manual 2.8.1), used by the C08 oracle
next to the Lean Spec.  Exact arithmetic (Fraction); no MontePy code is used."""
import math
import re
from fractions import Fraction

REL_TOL = Fraction(1, 10**9)

_NUM = re.compile(r"^([+-]?)(\d*)(?:\.(\d*))?(?:[eE]([+-]?\d+)|([+-]\d+))?$")


def parse_number(w):
    m = _NUM.match(w)
    if not m:
        return None
    sign, ip, fp, e1, e2 = m.groups()
    fp = fp or ""
    if not ip and not fp:
        return None
    mant = int((ip or "") + fp) if (ip or fp) else 0
    exp = int(e1 or e2 or 0) - len(fp)
    v = Fraction(mant) * (Fraction(10) ** exp)
    return -v if sign == "-" else v


def parse_word(w0):
    """-> (kind, arg) or None"""
    w = w0.lower()
    for suf, kind in (("ilog", "log_interpolate"), ("log", "log_interpolate"), ("r", "repeat"), ("j", "jump"), ("i", "interpolate")):
        if w.endswith(suf):
            pre = w[: -len(suf)]
            if pre == "":
                return (kind, None)
            if pre.isdigit() and pre.isascii():
                return (kind, int(pre))
            return None
    if w.endswith("m"):
        x = parse_number(w[:-1])
        return None if x is None else ("multiply", x)
    x = parse_number(w)
    return None if x is None else ("number", x)


def expand(text):
    """-> list of (value, kind) with value a Fraction, None (jump), ('lin', a, b, n, k) or ('log', a, b, n, k);
    or None if not a valid list"""
    out = []
    prev = None
    pend = None
    for w in text.split():
        e = parse_word(w)
        if e is None:
            return None
        kind, arg = e
        if kind == "number":
            if pend is not None:
                a, n, is_log = pend
                if is_log and (a <= 0 or arg <= 0):
                    return None
                for k in range(1, n + 1):
                    if is_log:
                        out.append((("log", a, arg, n, k), "log_interpolate"))
                    else:
                        out.append((("lin", a, arg, n, k), "interpolate"))
                out.append((arg, "log_interpolate" if is_log else "interpolate"))
                pend = None
            else:
                out.append((arg, "plain"))
            prev = arg
            continue
        if pend is not None:
            return None
        if kind == "jump":
            out += [(None, "jump")] * (1 if arg is None else arg)
            prev = None
            continue
        if prev is None:
            return None
        if kind == "repeat":
            out += [(prev, "repeat")] * (1 if arg is None else arg)
        elif kind == "multiply":
            prev = prev * arg
            out.append((prev, "multiply"))
        else:
            pend = (prev, 1 if arg is None else arg, kind == "log_interpolate")
    if pend is not None:
        return None
    return out


def close(a, b, rel=REL_TOL):
    a, b = Fraction(a), Fraction(b)
    return abs(a - b) <= rel * max(abs(a), abs(b))


def matches(denoted, got):
    """denoted: value of expand(); got: float/int or None"""
    if denoted is None or got is None:
        return denoted is None and got is None
    if isinstance(denoted, tuple) and denoted[0] == "lin":
        # an interpolate is judged on the scale of its interpolation: a double computation of a + (b-a)k/(n+1)
        # cannot be closer than ~1e-16 * max(|a|,|b|) to a value that should be 0
        _, a, b, n, k = denoted
        x = a + (b - a) * k / (n + 1)
        got = Fraction(got)
        return close(x, got) or abs(x - got) <= REL_TOL * max(abs(a), abs(b))
    if isinstance(denoted, tuple):
        _, a, b, n, k = denoted
        if got <= 0:
            return False
        want = float(a) * (float(b) / float(a)) ** (k / (n + 1))
        return math.isclose(want, float(got), rel_tol=1e-9 * (1 + 1e-3))
    return close(denoted, Fraction(got))


def compare(text, values):
    """None if `text` reads as `values` (position by position; trailing jumps may be left out), else
    (class, kind, detail)."""
    ex = expand(text)
    if ex is None:
        return ("unreadable", "list", f"not a valid MCNP list: {text!r}")
    n = max(len(ex), len(values))
    for i in range(n):
        d = ex[i] if i < len(ex) else None
        g = values[i] if i < len(values) else "absent"
        if d is None:  # text is shorter: only defaults may be left out
            if g is not None:
                return ("length-changed", ex[-1][1] if ex else "list", f"{len(ex)} entries written for {len(values)} values")
            continue
        if g == "absent":
            return ("length-changed", d[1], f"{len(ex)} entries written for {len(values)} values")
        if g is None or d[0] is None:
            if not (g is None and d[0] is None):
                return ("jump-lost", d[1], f"position {i}: written {d[0]!r}, value {g!r}")
            continue
        if not matches(d[0], g):
            return ("recompress-wrong-value", d[1], f"position {i}: written {d[0]!r}, value {g!r}")
    return None
