"""Python side of the independent MCNP-rules reader (lean/MontePyVerif/Spec/File.lean, driver drv_spec).

`denote(lines, limit)` asks the Lean Spec what MCNP reads in a file; the comparison helpers below are
plain data comparisons on the returned JSON (the semantics — lines, cards, words, numbers, shortcuts —
is all in Lean).
"""

import json
import os
import subprocess
from fractions import Fraction

from .core import MachineryError, VERIF

LEAN_DIR = os.path.join(VERIF, "lean")
_EXE = os.path.join(LEAN_DIR, ".lake", "build", "bin", "drv_spec")
_built = False


def _ensure():
    global _built
    if _built:
        return
    r = subprocess.run(["lake", "build", "drv_spec"], cwd=LEAN_DIR, capture_output=True, text=True)
    if r.returncode != 0 or not os.path.exists(_EXE):
        raise MachineryError("drv_spec does not build: " + (r.stdout + r.stderr)[-800:])
    _built = True


def batch(requests, timeout=1800):
    """requests: list of dicts ({"limit":..,"lines":[..]} plus optional "op")."""
    _ensure()
    if not requests:
        return []
    data = "".join(json.dumps(r, separators=(",", ":")) + "\n" for r in requests)
    r = subprocess.run([_EXE], input=data, capture_output=True, text=True, timeout=timeout)
    lines = r.stdout.splitlines()
    if r.returncode != 0 or len(lines) != len(requests):
        raise MachineryError(f"drv_spec failed rc={r.returncode} {len(lines)}/{len(requests)} {r.stderr[-400:]}")
    return [json.loads(l) for l in lines]


def denote_many(files, limit=128):
    """files: list of texts (str) or line lists -> list of denotations."""
    reqs = []
    for f in files:
        lines = f.split("\n") if isinstance(f, str) else list(f)
        reqs.append({"limit": limit, "lines": lines})
    return batch(reqs)


def cards_many(files, limit=128):
    """raw cards per block as MCNP's rules split them: words (blank/= separated), $ comments, comment cards"""
    reqs = []
    for f in files:
        lines = f.split("\n") if isinstance(f, str) else list(f)
        reqs.append({"limit": limit, "lines": lines, "op": "cards"})
    return batch(reqs)


def denote(text, limit=128):
    return denote_many([text], limit)[0]


# --------------------------------------------------------------------------- values
def q(v):
    """{"n":[num,den]} -> Fraction"""
    return Fraction(v["n"][0], v["n"][1])


def is_close(a, b, rel=Fraction(1, 10**9), abs_=Fraction(0)):
    a, b = Fraction(a), Fraction(b)
    return abs(a - b) <= max(rel * max(abs(a), abs(b)), abs_)


def log_close(v, x, rel=Fraction(1, 10**8)):
    """v = {"log":[a,b,k,n]}: x is the k-th of n log-interpolated values between a and b iff x^(n+1) = a^(n+1-k) b^k."""
    (an, ad), (bn, bd), k, n = v["log"]
    a, b, x = Fraction(an, ad), Fraction(bn, bd), Fraction(x)
    if a <= 0 or b <= 0 or x <= 0:
        return False
    lhs = x ** (n + 1)
    rhs = a ** (n + 1 - k) * b**k
    return abs(lhs - rhs) <= rel * (n + 1) * max(lhs, rhs)


def val_equal(a, b, rel=Fraction(1, 10**9)):
    """Two expanded Spec values denote the same thing."""
    if a == "J" or b == "J":
        return a == b
    if "n" in a and "n" in b:
        return is_close(q(a), q(b), rel)
    if "log" in a and "n" in b:
        return log_close(a, q(b))
    if "n" in a and "log" in b:
        return log_close(b, q(a))
    if "log" in a and "log" in b:
        if a == b:
            return True
        # two interpolations that denote the same number (`4.0 2ilog 32` re-compressed as `2. 3ilog 32`):
        # x = a1^(p1) b1^(q1) = a2^(p2) b2^(q2) with rational exponents; compare exactly after raising both to the
        # common power (n1+1)(n2+1)
        (a1n, a1d), (b1n, b1d), k1, n1 = a["log"]
        (a2n, a2d), (b2n, b2d), k2, n2 = b["log"]
        A1, B1, A2, B2 = Fraction(a1n, a1d), Fraction(b1n, b1d), Fraction(a2n, a2d), Fraction(b2n, b2d)
        if min(A1, B1, A2, B2) <= 0:
            return False
        lhs = (A1 ** (n1 + 1 - k1) * B1**k1) ** (n2 + 1)
        rhs = (A2 ** (n2 + 1 - k2) * B2**k2) ** (n1 + 1)
        return abs(lhs - rhs) <= Fraction(1, 10**8) * (n1 + 1) * (n2 + 1) * max(lhs, rhs)
    if "w" in a and "w" in b:
        return a["w"].lower() == b["w"].lower()
    return False


def vals_equal(xs, ys, rel=Fraction(1, 10**9)):
    return len(xs) == len(ys) and all(val_equal(x, y, rel) for x, y in zip(xs, ys))


def val_matches_number(v, x, rel=Fraction(1, 10**9)):
    """Spec value v denotes the Python number x (None = jump)."""
    if x is None:
        return v == "J"
    if v == "J":
        return False
    if "n" in v:
        return is_close(q(v), Fraction(x), rel)
    if "log" in v:
        return log_close(v, Fraction(x))
    return False


# --------------------------------------------------------------------------- parameters / particles
def split_key(key):
    """'imp:n,p' -> ('imp', ['n','p']); 'vol' -> ('vol', [None]); '*fill' -> ('*fill',[None])"""
    key = key.lower()
    if ":" in key:
        base, parts = key.split(":", 1)
        return base, sorted(p for p in parts.split(",") if p)
    return key, [None]


def norm_params(params):
    """list of [key, vals] -> dict (base, particle) -> vals; later definitions of the same key win (MCNP would reject)."""
    out = {}
    for key, vals in params:
        base, parts = split_key(key)
        for p in parts:
            out[(base, p)] = vals
    return out


def norm_geometry(words):
    """drop explicit '+' signs: '+5' == '5'"""
    return [w[1:] if w.startswith("+") and len(w) > 1 else w for w in words]


def geometry_equal(words_a, words_b):
    """Boolean equality of two cell geometries per Spec/GeomEval.lean (truth tables over all atoms).
    None-able result is treated as 'not shown equal'."""
    r = batch([{"limit": 128, "op": "geomeq", "lines": [" ".join(words_a), " ".join(words_b)]}])[0]
    return r is True


def strip_trailing_jumps(vals):
    vals = list(vals)
    while vals and vals[-1] == "J":
        vals.pop()
    return vals


def is_per_cell_card(name):
    base, _ = split_key(name)
    return base.lstrip("*") in CELL_DATA


def well_formed(den):
    """The part of G's well-formedness (DESIGN 5.2) that the whole-file properties need: every card has a number /
    name, every cell has an importance for every particle of MODE in exactly one block. -> (ok, reason)"""
    mode = ["n"]
    for d in den["data"]:
        if d["name"] == "mode":
            mode = [v["w"] for v in d["entries"] if isinstance(v, dict) and "w" in v]
    if any(c["number"] is None or c["like"] for c in den["cells"]):
        return False, "cell without number / LIKE BUT"
    if not den["cells"] or not den["surfaces"]:
        return False, "empty block"
    for s in den["surfaces"]:
        if s["number"] is None or not s["mnemonic"] or not s["mnemonic"][0].isalpha():
            return False, "surface card without number/mnemonic"
        if any(not (v == "J" or (isinstance(v, dict) and ("n" in v or "log" in v))) for v in s["constants"]):
            return False, "surface constants contain a word (two cards fused by the input itself?)"
        if s["mnemonic"] in ("cx", "cy", "cz", "so") and s["constants"] and isinstance(s["constants"][0], dict) and "n" in s["constants"][0] and s["constants"][0]["n"][0] <= 0:
            return False, "non-positive radius"
    for c in den["cells"]:
        if not c["geometry"]:
            return False, "cell without geometry"
        if any(w[-1:].isalpha() for w in c["geometry"]):
            return False, "shortcut or word inside cell geometry (excluded from G)"
    for d in den["data"]:
        if is_per_cell_card(d["name"]):
            n = len([v for v in d["entries"] if not (isinstance(v, dict) and v.get("w") == "no")])
            if n > len(den["cells"]):
                return False, "per-cell data card with more entries than cells"
    t = per_cell_table(den)
    for i in range(len(den["cells"])):
        for p in mode:
            if len(t.get((i, "imp", p), [])) != 1:
                return False, f"cell {den['cells'][i]['number']} has {len(t.get((i, 'imp', p), []))} importances for {p}"
    return True, ""


# --------------------------------------------------------------------------- whole-problem comparison
def diff_problems(a, b, rel=Fraction(1, 10**9), geometry_equal=None, compare_comments=True):
    """Differences between two denotations as a list of (class, where, detail). Empty list = Problem.same.

    geometry_equal: optional callback (words_a, words_b) -> bool used when the token lists differ
    (e.g. truth-table equality); without it geometry is compared word by word."""
    d = []
    def _msg(ms):
        ms = [m.rstrip() for m in ms]
        if ms and ms[0][:8].lower() == "message:":
            ms[0] = "message:" + ms[0][8:]  # the keyword itself is case-insensitive
        return ms

    if _msg(a["message"]) != _msg(b["message"]):
        d.append(("message", "message", (a["message"], b["message"])))
    if a["title"].rstrip() != b["title"].rstrip():
        d.append(("title", "title", (a["title"], b["title"])))
    for blk in ("cells", "surfaces", "data"):
        if len(a[blk]) != len(b[blk]):
            d.append(("count", blk, (len(a[blk]), len(b[blk]))))
    for i, (x, y) in enumerate(zip(a["cells"], b["cells"])):
        w = f"cell[{i}]#{x['number']}"
        if x["number"] != y["number"]:
            d.append(("cell-number", w, (x["number"], y["number"])))
        if x["material"] != y["material"]:
            d.append(("cell-material", w, (x["material"], y["material"])))
        if (x["density"] is None) != (y["density"] is None) or (
            x["density"] is not None and not is_close(Fraction(*x["density"]), Fraction(*y["density"]), rel)
        ):
            d.append(("cell-density", w, (x["density"], y["density"])))
        ga, gb = norm_geometry(x["geometry"]), norm_geometry(y["geometry"])
        if ga != gb and not (geometry_equal and geometry_equal(ga, gb)):
            d.append(("cell-geometry", w, (" ".join(ga), " ".join(gb))))
        pa, pb = norm_params(x["params"]), norm_params(y["params"])
        for k in sorted(set(pa) | set(pb), key=str):
            if k not in pa or k not in pb:
                d.append(("cell-param-missing", w, (k, k in pa, k in pb)))
            elif not vals_equal(pa[k], pb[k], rel):
                d.append(("cell-param-value", w, (k, pa[k], pb[k])))
        if compare_comments:
            _cmp_comments(d, w, x, y)
    for i, (x, y) in enumerate(zip(a["surfaces"], b["surfaces"])):
        w = f"surface[{i}]#{x['number']}"
        for f in ("number", "modifier", "pointer", "mnemonic"):
            if x[f] != y[f]:
                d.append(("surface-" + f, w, (x[f], y[f])))
        if not vals_equal(x["constants"], y["constants"], rel):
            d.append(("surface-constants", w, (x["constants"], y["constants"])))
        if compare_comments:
            _cmp_comments(d, w, x, y)
    for i, (x, y) in enumerate(zip(a["data"], b["data"])):
        w = f"data[{i}]:{x['name']}"
        if split_key(x["name"]) != split_key(y["name"]):
            d.append(("data-name", w, (x["name"], y["name"])))
        ex, ey = x["entries"], y["entries"]
        if is_per_cell_card(x["name"]):
            # trailing defaults of a per-cell vector may be omitted or written: the same per-cell values
            ex, ey = strip_trailing_jumps(ex), strip_trailing_jumps(ey)
        if not vals_equal(ex, ey, rel):
            d.append(("data-entries", w, (x["entries"], y["entries"])))
        if compare_comments:
            _cmp_comments(d, w, x, y)
    if compare_comments:
        for h in ("head", "surf_head", "data_head"):
            if [c.strip() for c in a[h]] != [c.strip() for c in b[h]]:
                d.append(("comment-block-head", h, (a[h], b[h])))
    return d


def _cmp_comments(d, w, x, y):
    # the comments of one card are compared as a multiset: MontePy prints the importances of a cell together where
    # the first one stands, so a comment behind a later `imp:` entry moves with it (nothing dropped or duplicated,
    # which is what the property asks; the order inside one card is not part of it)
    if sorted(c.strip() for c in x["dollar"]) != sorted(c.strip() for c in y["dollar"]):
        d.append(("comment-dollar", w, (x["dollar"], y["dollar"])))
    if sorted(c.strip() for c in x["ccomments"]) != sorted(c.strip() for c in y["ccomments"]):
        d.append(("comment-c", w, (x["ccomments"], y["ccomments"])))


# --------------------------------------------------------------------------- per-cell data (C09)
CELL_DATA = ("imp", "vol", "u", "lat", "fill")


def per_cell_table(den):
    """For every cell index and per-cell datum: where it is given (cell block / data block) and its value.

    Returns dict (cell_index, base, particle) -> list of (block, vals). A datum given exactly once has a list of length 1."""
    t = {}
    ncell = len(den["cells"])
    for i, c in enumerate(den["cells"]):
        # every occurrence counts: a datum given twice on one cell card ('imp:n=1 imp:p,n=1') is listed twice
        for key, vals in c["params"]:
            base, parts = split_key(key)
            b = base.lstrip("*")
            if b in CELL_DATA:
                for part in parts:
                    t.setdefault((i, b, part), []).append(("cell", vals))
    for card in den["data"]:
        base, parts = split_key(card["name"])
        b = base.lstrip("*")
        if b not in CELL_DATA:
            continue
        entries = card["entries"]
        if b == "vol" and entries and isinstance(entries[0], dict) and entries[0].get("w") == "no":
            entries = entries[1:]
        for p in parts:
            for i in range(min(ncell, len(entries))):
                if entries[i] != "J":
                    t.setdefault((i, b, p), []).append(("data", [entries[i]]))
    return t
