"""Whole-file runs on the real code shared by C01, C07, C19: read a text with MontePy, write it back,
collect the per-object formatted lines, shrink a failing text card by card."""

import copy
import glob
import os
import shutil
import tempfile

from . import mp
from .core import REPO

V80 = (6, 1, 0)
V128 = (6, 2, 0)


def version_of(limit):
    return V80 if limit == 80 else V128


def ascii_clean(text):
    """MontePy (and C11's rule) turn every non-ASCII character into a blank; MCNP input is ASCII."""
    return "".join(c if ord(c) < 128 else " " for c in text)


def fixtures():
    """(name, text) of the repository's own complete problems"""
    out = []
    for f in sorted(glob.glob(os.path.join(REPO, "tests", "inputs", "*.imcnp"))) + [os.path.join(REPO, "demo", "pin_cell.imcnp")]:
        try:
            with open(f, encoding="utf-8", errors="replace") as fh:
                out.append((os.path.basename(f), fh.read()))
        except OSError:
            pass
    return out


class Scratch:
    def __enter__(self):
        self.dir = tempfile.mkdtemp(prefix="verif_")
        return self

    def __exit__(self, *a):
        shutil.rmtree(self.dir, ignore_errors=True)

    def path(self, name):
        return os.path.join(self.dir, name)


def read_text(text, limit, scratch, name="in.imcnp"):
    p = scratch.path(name)
    with open(p, "w", encoding="utf-8", newline="") as fh:
        fh.write(text)
    return mp.montepy.read_input(p, mcnp_version=version_of(limit))


def write_text(problem, scratch, name="out.imcnp"):
    p = scratch.path(name)
    problem.write_to_file(p, overwrite=True)
    with open(p, encoding="utf-8", newline="") as fh:
        return fh.read()


def split_cards(lines):
    """harness-level: split the lines one call returned into cards (a card starts at a line with a non-blank in
    columns 1-5 that is not a comment card and does not follow a data line ending in `&`). Only used for calls
    that return several cards at once."""
    cards, cur = [], []
    amp = False
    for l in lines:
        com = _is_comment(l)
        starts = bool(l[:5].strip()) and not com and not amp
        if starts and any(not _is_comment(x) for x in cur):
            cards.append(cur)
            cur = []
        cur.append(l)
        if not com:
            amp = l.split("$")[0].rstrip().endswith("&")
    if cur:
        cards.append(cur)
    return cards


def _is_comment(l):
    s = l.lstrip(" ")
    lead = len(l) - len(s)
    return lead < 5 and s[:1] in ("c", "C") and (len(s) == 1 or s[1] == " ")


def object_lines(problem):
    """the lines every object formats to, in the writer's order. Formatting may adjust the trees: hand in a
    problem that is not used for anything else (read the text once more)."""
    p = problem
    v = p.mcnp_version
    out = {"message": [], "title": "", "cells": [], "surfaces": [], "data": [], "data_owner": []}
    if p.message:
        ls = p.message.format_for_mcnp_input(v)
        out["message"] = ls[:-1] if ls and ls[-1] == "" else ls
    out["title"] = "\n".join(p.title.format_for_mcnp_input(v))
    for c in p.cells:
        out["cells"].append(c.format_for_mcnp_input(v))
    for s in p.surfaces:
        out["surfaces"].append(s.format_for_mcnp_input(v))
    for i, d in enumerate(p.data_inputs):
        cs = split_cards(d.format_for_mcnp_input(v))
        out["data"] += cs
        out["data_owner"] += [i] * len(cs)
    cs = split_cards(p.cells._run_children_format_for_mcnp(p.data_inputs, v))
    out["data"] += cs
    out["data_owner"] += ["modifier"] * len(cs)
    return out


def drop_card_candidates(den_blocks_lines):
    raise NotImplementedError


def shrink_text(text, still_fails, limit=128):
    """drop whole cards (and comment lines) while `still_fails(text)` and the text stays a well-formed problem
    (a shrunk case must remain inside the property's quantifier); cards are found with the harness splitter"""
    from . import spec

    inner = still_fails

    def still_fails(t):  # noqa: F811
        ok, _ = spec.well_formed(spec.denote(t, limit))
        return ok and inner(t)

    lines = text.split("\n")
    # group line indices into removable units: comment lines alone, cards = first line + continuations
    units, cur = [], []
    for i, l in enumerate(lines):
        if i == 0 or not l.strip():
            if cur:
                units.append(cur)
                cur = []
            units.append([i])  # title / blank lines: never removed (kept as fixed units)
            continue
        starts = bool(l[:5].strip()) and not _is_comment(l)
        if (starts or _is_comment(l)) and cur:
            units.append(cur)
            cur = []
        cur.append(i)
    if cur:
        units.append(cur)
    fixed = {tuple(u) for u in units if len(u) == 1 and (u[0] == 0 or not lines[u[0]].strip())}
    keep = list(units)
    changed = True
    rounds = 0
    while changed and rounds < 4:
        changed = False
        rounds += 1
        for u in list(keep):
            if tuple(u) in fixed:
                continue
            cand = [x for x in keep if x is not u]
            t = "\n".join(lines[i] for unit in cand for i in unit)
            try:
                if still_fails(t):
                    keep = cand
                    changed = True
            except Exception:  # noqa: BLE001
                pass
    return "\n".join(lines[i] for unit in keep for i in unit)
